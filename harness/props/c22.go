package props

// C22 — gnmidiff SetRequest intent diff is a well-behaved comparison.
//
// Every explored state of the compressed OpenConfig-style corpus package (voccs) is turned into
// SetRequests that all carry the same intent ("write exactly the leaves of the reference Model"):
// per-leaf updates with scalar TypedValues, per-leaf updates with JSON_IETF scalars, and JSON_IETF
// container updates at every grouping depth (root, /system, /system/config, a list entry, ...).
// Each of those is then rewritten by every prefix/path split, every permutation of <= 3 updates,
// leaf replace instead of update, and every single duplicated update. The laws of the statement are
// evaluated with and without schema. The file also holds the request/notification machinery shared
// with C23 (c23.go).

import (
	"encoding/base64"
	"encoding/hex"
	"encoding/json"
	"fmt"
	"os"
	"reflect"
	"runtime/pprof"
	"sort"
	"strconv"
	"strings"
	"sync"

	gpb "github.com/openconfig/gnmi/proto/gnmi"
	"github.com/openconfig/ygot/gnmidiff"
	"github.com/openconfig/ygot/ytypes"
	"github.com/openconfig/ygot/zzverif/core"
	"google.golang.org/protobuf/proto"
)

func init() { core.RegisterProp(&core.Prop{ID: "C22", Run: runC22, Replay: replayC22}) }

// ---- alphabet ---------------------------------------------------------------------------------

// c22AdvNames: adversarial interface names, one special character each (the derived alphabet already
// holds "a", "x:y" and `a/b]=\[x`). They are list key values, hence part of every path below the entry.
// The last three look like path segments that a path-cleaning routine (path.Join / path.Clean) rewrites.
var c22AdvNames = []string{"e]1", "e=1", "e[1", "e 1", "e/1", `e\1`, "é✓", "e//1", "e/./1", "e/../1"}

// c22Alphabet is the derived atom alphabet of p without the representation-only atoms (empty maps,
// empty non-nil leaf-lists: no data, hence no request) plus, per adversarial name, an interface entry
// and one leaf in it.
func c22Alphabet(p *core.Pkg) []*core.Atom {
	var out []*core.Atom
	var entry, descr *core.Atom
	for _, a := range p.Atoms() {
		if a.Kind == "emptylist" || (a.Kind == "leaflist" && len(a.Val.Elems()) == 0) {
			continue
		}
		out = append(out, a)
		if a.Name == "/Interface[str:a]" {
			entry = a
		}
		if a.Name == "/Interface[str:a]/Descr=str:a" {
			descr = a
		}
	}
	if entry == nil || descr == nil {
		return out
	}
	clone := func(a *core.Atom, name string) *core.Atom {
		b := *a
		b.Steps = append([]core.Step(nil), a.Steps...)
		b.Steps[0].Key = []core.Value{core.Value("str:" + name)}
		b.Path = a.Path.Clone()
		for i := range b.Path {
			for j := range b.Path[i].Keys {
				if b.Path[i].Keys[j].Name == "name" {
					b.Path[i].Keys[j].Val = core.Value("str:" + name)
				}
			}
		}
		b.Focus = true
		return &b
	}
	for _, n := range c22AdvNames {
		e := clone(entry, n)
		e.Name = "/Interface[str:" + n + "]"
		d := clone(descr, n)
		d.Name = "/Interface[str:" + n + "]/Descr=str:a"
		out = append(out, e, d)
	}
	return out
}

// c22FocusAlphabet (thorough tier, k = 3): the focus atoms of the derived alphabet (one value per
// node) and the entries of the first three adversarial names.
func c22FocusAlphabet(p *core.Pkg) []*core.Atom {
	var out []*core.Atom
	for _, a := range c22Alphabet(p) {
		adv := -1
		for i, n := range c22AdvNames {
			if strings.HasPrefix(a.Name, "/Interface[str:"+n+"]") {
				adv = i
			}
		}
		if a.Focus && adv < 3 {
			out = append(out, a)
		}
	}
	return out
}

func c22Resolve(p *core.Pkg, names []string) ([]*core.Atom, bool) {
	idx := map[string]*core.Atom{}
	for _, a := range c22Alphabet(p) {
		idx[a.Name] = a
	}
	var out []*core.Atom
	for _, n := range names {
		a, ok := idx[n]
		if !ok {
			return nil, false
		}
		out = append(out, a)
	}
	return out, true
}

// c22Sibling: the next atom of the alphabet that sets the same node kind through the same fields but
// is a different atom (another value of the same leaf -> mismatch; another key of the same list ->
// missing + extra).
func c22Sibling(alpha []*core.Atom, a *core.Atom) *core.Atom {
	same := func(b *core.Atom) bool {
		if b.Kind != a.Kind || len(b.Steps) != len(a.Steps) {
			return false
		}
		for i := range a.Steps {
			if a.Steps[i].Field != b.Steps[i].Field {
				return false
			}
		}
		return true
	}
	at := -1
	for i, b := range alpha {
		if b.Name == a.Name {
			at = i
		}
	}
	for i := 1; i < len(alpha); i++ {
		b := alpha[(at+i)%len(alpha)]
		if b.Name != a.Name && same(b) {
			return b
		}
	}
	return nil
}

// c22Partners: non-equivalent neighbours of a state, for the argument-swap law.
func c22Partners(alpha []*core.Atom, atoms []*core.Atom) [][]*core.Atom {
	if len(atoms) == 0 {
		return nil
	}
	n := len(atoms)
	out := [][]*core.Atom{append([]*core.Atom(nil), atoms[:n-1]...)}
	if s := c22Sibling(alpha, atoms[n-1]); s != nil {
		out = append(out, append(append([]*core.Atom(nil), atoms[:n-1]...), s))
	}
	return out
}

// ---- leaves of a state, value encodings -------------------------------------------------------

type c22Leaf struct {
	Key  string
	Path core.Path
	Val  core.Value
}

func c22Leaves(p *core.Pkg, atoms []*core.Atom) ([]c22Leaf, bool) {
	t, err := p.Build(atoms)
	if err != nil {
		return nil, false
	}
	m := p.Observe(t)
	if len(m.Bad) > 0 || len(m.Unkeyed) > 0 {
		return nil, false
	}
	var out []c22Leaf
	for _, k := range core.SortedKeys(m.Leaves) {
		out = append(out, c22Leaf{Key: k, Path: m.Paths[k], Val: m.Leaves[k]})
	}
	return out, true
}

// c22Lossy: values whose scalar TypedValue form is documented as lossy without schema
// (protoLeafToJSON: int_val/uint_val of 64-bit types and double_val).
func c22Lossy(v core.Value) bool {
	if v.IsLL() {
		for _, e := range v.Elems() {
			if c22Lossy(e) {
				return true
			}
		}
		return false
	}
	switch v.Kind() {
	case "i64", "u64", "dec":
		return true
	}
	return false
}

// c22Typed: the scalar TypedValue of a canonical value (own mapping, not ygot's encoder).
func c22Typed(v core.Value) *gpb.TypedValue {
	if v.IsLL() {
		arr := &gpb.ScalarArray{}
		for _, e := range v.Elems() {
			arr.Element = append(arr.Element, c22Typed(e))
		}
		return &gpb.TypedValue{Value: &gpb.TypedValue_LeaflistVal{LeaflistVal: arr}}
	}
	pl := v.Payload()
	k := v.Kind()
	switch {
	case k == "str", k == "enum":
		return &gpb.TypedValue{Value: &gpb.TypedValue_StringVal{StringVal: pl}}
	case k == "bool":
		return &gpb.TypedValue{Value: &gpb.TypedValue_BoolVal{BoolVal: pl == "true"}}
	case k == "empty":
		return &gpb.TypedValue{Value: &gpb.TypedValue_BoolVal{BoolVal: true}}
	case k == "bin":
		b, _ := hex.DecodeString(pl)
		if b == nil {
			b = []byte{}
		}
		return &gpb.TypedValue{Value: &gpb.TypedValue_BytesVal{BytesVal: b}}
	case k == "dec":
		f, _ := strconv.ParseFloat(pl, 64)
		return &gpb.TypedValue{Value: &gpb.TypedValue_DoubleVal{DoubleVal: f}}
	case strings.HasPrefix(k, "i"):
		n, _ := strconv.ParseInt(pl, 10, 64)
		return &gpb.TypedValue{Value: &gpb.TypedValue_IntVal{IntVal: n}}
	case strings.HasPrefix(k, "u"):
		n, _ := strconv.ParseUint(pl, 10, 64)
		return &gpb.TypedValue{Value: &gpb.TypedValue_UintVal{UintVal: n}}
	}
	panic("c22Typed: " + string(v))
}

// c22JSONValue: the RFC 7951 form of a canonical value as an encoding/json tree (own renderer:
// 64-bit integers and decimal64 as strings, other integers as numbers, names for enumerations and
// identities, base64 for binary, [null] for empty).
func c22JSONValue(v core.Value) interface{} {
	if v.IsLL() {
		arr := []interface{}{}
		for _, e := range v.Elems() {
			arr = append(arr, c22JSONValue(e))
		}
		return arr
	}
	pl := v.Payload()
	switch v.Kind() {
	case "str", "enum", "i64", "u64", "dec":
		return pl
	case "bool":
		return pl == "true"
	case "empty":
		return []interface{}{nil}
	case "bin":
		b, _ := hex.DecodeString(pl)
		return base64.StdEncoding.EncodeToString(b)
	}
	return json.Number(pl)
}

func c22JSONTV(x interface{}) *gpb.TypedValue {
	b, err := json.Marshal(x)
	if err != nil {
		panic("c22JSONTV: " + err.Error())
	}
	return &gpb.TypedValue{Value: &gpb.TypedValue_JsonIetfVal{JsonIetfVal: b}}
}

type c22List struct {
	entries map[string]map[string]interface{}
}

// c22Render renders the leaves (all at or below base) as the RFC 7951 JSON object of the node at base.
func c22Render(leaves []c22Leaf, base core.Path) interface{} {
	root := map[string]interface{}{}
	for _, l := range leaves {
		cur := root
		rel := l.Path[len(base):]
		for i, e := range rel {
			last := i == len(rel)-1
			if last {
				cur[e.Name] = c22JSONValue(l.Val)
				break
			}
			if len(e.Keys) == 0 {
				nx, ok := cur[e.Name].(map[string]interface{})
				if !ok {
					nx = map[string]interface{}{}
					cur[e.Name] = nx
				}
				cur = nx
				continue
			}
			ls, ok := cur[e.Name].(*c22List)
			if !ok {
				ls = &c22List{entries: map[string]map[string]interface{}{}}
				cur[e.Name] = ls
			}
			ks := e.KeyString()
			nx, ok := ls.entries[ks]
			if !ok {
				nx = map[string]interface{}{}
				ls.entries[ks] = nx
			}
			cur = nx
		}
	}
	return c22Finish(root)
}

func c22Finish(x interface{}) interface{} {
	switch v := x.(type) {
	case map[string]interface{}:
		for k, c := range v {
			v[k] = c22Finish(c)
		}
		return v
	case *c22List:
		arr := []interface{}{}
		for _, k := range core.SortedKeys(v.entries) {
			arr = append(arr, c22Finish(v.entries[k]))
		}
		return arr
	}
	return x
}

// c22RefPath: the documented key format of the diff maps ("string representation of a gpb.Path
// constructed by ygot.PathToString"), written independently: name[k=v] with keys sorted by name and
// '=' and ']' escaped with a backslash inside values.
func c22RefPath(p core.Path) string {
	var b strings.Builder
	for _, e := range p {
		b.WriteString("/" + e.Name)
		for _, k := range e.Keys {
			v := core.RefKeyString(k.Val)
			v = strings.ReplaceAll(v, "=", `\=`)
			v = strings.ReplaceAll(v, "]", `\]`)
			b.WriteString("[" + k.Name + "=" + v + "]")
		}
	}
	return b.String()
}

// ---- request specifications -------------------------------------------------------------------

type c22Upd struct {
	Path core.Path
	TV   *gpb.TypedValue
}

// c22Spec is a SetRequest in structured form; Prefix is the number of leading path elements that go
// into SetRequest.Prefix (they must be common to all paths).
type c22Spec struct {
	Desc   string
	Leafy  bool // one update per leaf (replace == update applies)
	Prefix int
	Del    []core.Path
	Rep    []c22Upd
	Upd    []c22Upd
	Writes []c22Leaf   // the leaves the intent writes
	Dels   []core.Path // the subtrees the intent deletes
}

func (s *c22Spec) clone(desc string) *c22Spec {
	n := *s
	n.Desc = desc
	n.Del = append([]core.Path(nil), s.Del...)
	n.Rep = append([]c22Upd(nil), s.Rep...)
	n.Upd = append([]c22Upd(nil), s.Upd...)
	return &n
}

func (s *c22Spec) paths() []core.Path {
	var out []core.Path
	out = append(out, s.Del...)
	for _, u := range s.Rep {
		out = append(out, u.Path)
	}
	for _, u := range s.Upd {
		out = append(out, u.Path)
	}
	return out
}

func c22SameElem(a, b core.PElem) bool { return a.Name == b.Name && a.KeyString() == b.KeyString() }

func c22Common(ps []core.Path) int {
	if len(ps) == 0 {
		return 0
	}
	n := len(ps[0])
	for _, p := range ps[1:] {
		i := 0
		for i < n && i < len(p) && c22SameElem(ps[0][i], p[i]) {
			i++
		}
		n = i
	}
	return n
}

func c22Rel(p core.Path, n int) *gpb.Path {
	g := p[n:].GNMI()
	if g.Elem == nil {
		g.Elem = []*gpb.PathElem{}
	}
	return g
}

// Req builds a fresh SetRequest proto (nothing shared with earlier ones).
func (s *c22Spec) Req() *gpb.SetRequest {
	req := &gpb.SetRequest{}
	if s.Prefix > 0 {
		req.Prefix = s.paths()[0][:s.Prefix].GNMI()
	}
	for _, d := range s.Del {
		req.Delete = append(req.Delete, c22Rel(d, s.Prefix))
	}
	for _, u := range s.Rep {
		req.Replace = append(req.Replace, &gpb.Update{Path: c22Rel(u.Path, s.Prefix), Val: proto.Clone(u.TV).(*gpb.TypedValue)})
	}
	for _, u := range s.Upd {
		req.Update = append(req.Update, &gpb.Update{Path: c22Rel(u.Path, s.Prefix), Val: proto.Clone(u.TV).(*gpb.TypedValue)})
	}
	return req
}

func (s *c22Spec) String() string {
	return fmt.Sprintf("%s %s", s.Desc, strings.Join(strings.Fields(fmt.Sprint(s.Req())), " "))
}

type c22Group struct {
	Base   core.Path
	Leaves []c22Leaf
}

// c22Groups partitions the leaves by the first min(d, len-1) elements of their path. With merge, a
// group whose base lies below another group's base is folded into that one (replace paths must not nest).
func c22Groups(leaves []c22Leaf, d int, merge bool) []c22Group {
	var gs []c22Group
	idx := map[string]int{}
	for _, l := range leaves {
		n := d
		if n > len(l.Path)-1 {
			n = len(l.Path) - 1
		}
		b := l.Path[:n]
		k := b.String()
		i, ok := idx[k]
		if !ok {
			i = len(gs)
			idx[k] = i
			gs = append(gs, c22Group{Base: b})
		}
		gs[i].Leaves = append(gs[i].Leaves, l)
	}
	if !merge {
		return gs
	}
	var out []c22Group
	for i, g := range gs {
		outer := -1
		for j, h := range gs {
			if i != j && len(h.Base) < len(g.Base) && c22Common([]core.Path{h.Base, g.Base}) == len(h.Base) {
				if outer < 0 || len(h.Base) < len(gs[outer].Base) {
					outer = j
				}
			}
		}
		if outer < 0 {
			out = append(out, g)
		}
	}
	for _, g := range gs {
		for j := range out {
			if len(out[j].Base) < len(g.Base) && c22Common([]core.Path{out[j].Base, g.Base}) == len(out[j].Base) {
				out[j].Leaves = append(out[j].Leaves, g.Leaves...)
				break
			}
		}
	}
	for j := range out {
		sort.Slice(out[j].Leaves, func(a, b int) bool { return out[j].Leaves[a].Key < out[j].Leaves[b].Key })
	}
	return out
}

func c22GroupSig(gs []c22Group) string {
	var s []string
	for _, g := range gs {
		s = append(s, g.Base.String())
	}
	return strings.Join(s, " ")
}

func c22MaxDepth(leaves []c22Leaf) int {
	m := 0
	for _, l := range leaves {
		if len(l.Path)-1 > m {
			m = len(l.Path) - 1
		}
	}
	return m
}

// c22LeafTV encodes one leaf for the per-leaf forms. typed=false: JSON_IETF scalar. Without schema the
// lossy kinds are always sent as JSON_IETF scalars (excluded region), reported through *lossy.
func c22LeafTV(l c22Leaf, typed, withSchema bool, lossy *int) *gpb.TypedValue {
	if typed && !withSchema && c22Lossy(l.Val) {
		*lossy++
		typed = false
	}
	if typed {
		return c22Typed(l.Val)
	}
	return c22JSONTV(c22JSONValue(l.Val))
}

// c22Shapes: the forms that all carry the intent "update exactly these leaves".
func c22Shapes(leaves []c22Leaf, withSchema bool, lossy *int) []*c22Spec {
	var out []*c22Spec
	for _, typed := range []bool{true, false} {
		s := &c22Spec{Desc: "leaf-json", Leafy: true, Writes: leaves}
		if typed {
			s.Desc = "leaf-typed"
		}
		for _, l := range leaves {
			s.Upd = append(s.Upd, c22Upd{Path: l.Path, TV: c22LeafTV(l, typed, withSchema, lossy)})
		}
		out = append(out, s)
	}
	seen := map[string]bool{}
	for d := 0; d <= c22MaxDepth(leaves); d++ {
		gs := c22Groups(leaves, d, false)
		if k := c22GroupSig(gs); seen[k] {
			continue
		} else {
			seen[k] = true
		}
		s := &c22Spec{Desc: fmt.Sprintf("json@%d", d), Writes: leaves}
		for _, g := range gs {
			s.Upd = append(s.Upd, c22Upd{Path: g.Base, TV: c22JSONTV(c22Render(g.Leaves, g.Base))})
		}
		out = append(out, s)
	}
	return out
}

// c22DeleteShapes: requests that delete / replace subtrees and write the leaves (C23 base set and the
// delete maps of the swap law): replace with JSON at each grouping depth, delete + per-leaf updates,
// delete only.
func c22DeleteShapes(leaves []c22Leaf, withSchema bool, lossy *int) []*c22Spec {
	var out []*c22Spec
	seen := map[string]bool{}
	for d := 0; d <= c22MaxDepth(leaves); d++ {
		gs := c22Groups(leaves, d, true)
		if k := c22GroupSig(gs); seen[k] {
			continue
		} else {
			seen[k] = true
		}
		rj := &c22Spec{Desc: fmt.Sprintf("replace-json@%d", d), Writes: leaves}
		dl := &c22Spec{Desc: fmt.Sprintf("delete+leaf@%d", d), Leafy: true, Writes: leaves}
		do := &c22Spec{Desc: fmt.Sprintf("delete-only@%d", d)}
		for _, g := range gs {
			rj.Rep = append(rj.Rep, c22Upd{Path: g.Base, TV: c22JSONTV(c22Render(g.Leaves, g.Base))})
			rj.Dels = append(rj.Dels, g.Base)
			dl.Del = append(dl.Del, g.Base)
			dl.Dels = append(dl.Dels, g.Base)
			do.Del = append(do.Del, g.Base)
			do.Dels = append(do.Dels, g.Base)
		}
		for _, l := range leaves {
			dl.Upd = append(dl.Upd, c22Upd{Path: l.Path, TV: c22LeafTV(l, true, withSchema, lossy)})
		}
		out = append(out, rj, dl, do)
	}
	return out
}

func c22Perms(n int) [][]int {
	if n < 2 {
		return nil
	}
	if n > 3 {
		rev := make([]int, n)
		rot := make([]int, n)
		for i := range rev {
			rev[i] = n - 1 - i
			rot[i] = (i + 1) % n
		}
		return [][]int{rev, rot}
	}
	var out [][]int
	var rec func(cur []int, used int)
	rec = func(cur []int, used int) {
		if len(cur) == n {
			id := true
			for i, x := range cur {
				if x != i {
					id = false
				}
			}
			if !id {
				out = append(out, append([]int(nil), cur...))
			}
			return
		}
		for i := 0; i < n; i++ {
			if used&(1<<uint(i)) == 0 {
				rec(append(cur, i), used|1<<uint(i))
			}
		}
	}
	rec(nil, 0)
	return out
}

func c22Permute(u []c22Upd, p []int) []c22Upd {
	out := make([]c22Upd, len(u))
	for i, j := range p {
		out[i] = u[j]
	}
	return out
}

type c22RW struct {
	Kind string
	Spec *c22Spec
}

// c22Rewrites: every single intent-preserving rewrite of s named in the statement.
func c22Rewrites(s *c22Spec) []c22RW {
	var out []c22RW
	for n := 1; n <= c22Common(s.paths()); n++ {
		r := s.clone(fmt.Sprintf("%s|prefix=%d", s.Desc, n))
		r.Prefix = n
		out = append(out, c22RW{"prefix-split", r})
	}
	for _, p := range c22Perms(len(s.Upd)) {
		r := s.clone(fmt.Sprintf("%s|perm=%v", s.Desc, p))
		r.Upd = c22Permute(s.Upd, p)
		out = append(out, c22RW{"permute", r})
	}
	for _, p := range c22Perms(len(s.Rep)) {
		r := s.clone(fmt.Sprintf("%s|rperm=%v", s.Desc, p))
		r.Rep = c22Permute(s.Rep, p)
		out = append(out, c22RW{"permute", r})
	}
	if s.Leafy && len(s.Upd) > 0 {
		for i := range s.Upd {
			r := s.clone(fmt.Sprintf("%s|replace=%d", s.Desc, i))
			r.Rep = append(r.Rep, s.Upd[i])
			r.Upd = append(append([]c22Upd(nil), s.Upd[:i]...), s.Upd[i+1:]...)
			out = append(out, c22RW{"leaf-replace", r})
		}
		if len(s.Upd) > 1 {
			r := s.clone(s.Desc + "|replace=all")
			r.Rep = append(r.Rep, s.Upd...)
			r.Upd = nil
			out = append(out, c22RW{"leaf-replace", r})
		}
	}
	for i := range s.Upd {
		r := s.clone(fmt.Sprintf("%s|dup=%d", s.Desc, i))
		r.Upd = append(append(append([]c22Upd(nil), s.Upd[:i+1]...), s.Upd[i]), s.Upd[i+1:]...)
		out = append(out, c22RW{"duplicate", r})
	}
	return out
}

// ---- calling the code under test --------------------------------------------------------------

func c22Schema(p *core.Pkg, withSchema bool) *ytypes.Schema {
	if !withSchema {
		return nil
	}
	// populateUpdate writes into schema.Root (GetOrCreateNode): every call gets its own root so that
	// calls neither race nor depend on each other; the schema tree itself is only read.
	sh := p.Schema()
	return &ytypes.Schema{Root: p.NewRoot(), SchemaTree: sh.SchemaTree, Unmarshal: sh.Unmarshal}
}

func c22Diff(p *core.Pkg, a, b *c22Spec, withSchema bool) (d gnmidiff.SetRequestIntentDiff, err error) {
	defer recoverTo(&err)
	return gnmidiff.DiffSetRequest(a.Req(), b.Req(), c22Schema(p, withSchema))
}

func c22Keys(m interface{}) []string {
	v := reflect.ValueOf(m)
	var out []string
	for _, k := range v.MapKeys() {
		out = append(out, k.String())
	}
	sort.Strings(out)
	return out
}

func c22Trunc(ks []string) string {
	if len(ks) > 4 {
		return fmt.Sprintf("%q + %d more", ks[:4], len(ks)-4)
	}
	return fmt.Sprintf("%q", ks)
}

// c22NonEmpty describes the non-empty difference parts ("" when the diff is empty).
func c22NonEmpty(d gnmidiff.SetRequestIntentDiff) string {
	var parts []string
	add := func(n string, m interface{}) {
		if ks := c22Keys(m); len(ks) > 0 {
			parts = append(parts, n+"="+c22Trunc(ks))
		}
	}
	add("missing-deletes", d.MissingDeletes)
	add("extra-deletes", d.ExtraDeletes)
	add("missing-updates", d.MissingUpdates)
	add("extra-updates", d.ExtraUpdates)
	add("mismatched-updates", d.MismatchedUpdates)
	return strings.Join(parts, "; ")
}

func c22Canon(x interface{}) string {
	b, _ := json.Marshal(x) // map keys are sorted
	return string(b)
}

// c22SwapDiffers compares Diff(b,a) with the argument-swapped Diff(a,b).
func c22SwapDiffers(ab, ba gnmidiff.SetRequestIntentDiff) string {
	var parts []string
	cmp := func(n string, x, y interface{}) {
		if reflect.ValueOf(x).Len() == 0 && reflect.ValueOf(y).Len() == 0 {
			return
		}
		if c22Canon(x) != c22Canon(y) {
			parts = append(parts, fmt.Sprintf("%s: %s vs %s", n, c22Canon(x), c22Canon(y)))
		}
	}
	cmp("missing-deletes(a,b) vs extra-deletes(b,a)", ab.MissingDeletes, ba.ExtraDeletes)
	cmp("extra-deletes(a,b) vs missing-deletes(b,a)", ab.ExtraDeletes, ba.MissingDeletes)
	cmp("common-deletes", ab.CommonDeletes, ba.CommonDeletes)
	cmp("missing-updates(a,b) vs extra-updates(b,a)", ab.MissingUpdates, ba.ExtraUpdates)
	cmp("extra-updates(a,b) vs missing-updates(b,a)", ab.ExtraUpdates, ba.MissingUpdates)
	cmp("common-updates", ab.CommonUpdates, ba.CommonUpdates)
	sw := map[string]gnmidiff.MismatchedUpdate{}
	for k, v := range ba.MismatchedUpdates {
		sw[k] = gnmidiff.MismatchedUpdate{A: v.B, B: v.A}
	}
	cmp("mismatched-updates with A/B swapped", ab.MismatchedUpdates, sw)
	return strings.Join(parts, "; ")
}

// ---- evaluation of one state ------------------------------------------------------------------

// c22V: Kind selects the part of the evaluation that produced it (filter for minimisation / replay);
// SigKind is what the signature shows.
type c22V struct{ Clause, Kind, SigKind, Detail string }

// c22Sink collects what one evaluation saw. only != "" restricts the evaluation to one kind (used by
// minimisation and replay).
type c22Sink struct {
	only  string
	viols []c22V
	seen  map[string]bool
	out   map[string]int64
	errs  map[string]string // first error message per class
	evals int64
}

func newC22Sink(only string) *c22Sink {
	return &c22Sink{only: only, seen: map[string]bool{}, out: map[string]int64{}, errs: map[string]string{}}
}

// errOut counts a returned (not judged) error by class and keeps one message per class.
func (s *c22Sink) errOut(prefix string, err error, what ...fmt.Stringer) {
	k := prefix + c22ErrClass(err)
	s.out[k]++
	if _, ok := s.errs[k]; !ok {
		m := trunc400(err.Error()) + " <="
		for _, w := range what {
			m += " " + trunc400(w.String())
		}
		s.errs[k] = m
	}
}

func trunc400(s string) string {
	if len(s) > 400 {
		return s[:400] + "..."
	}
	return s
}

func (s *c22Sink) want(kind string) bool { return s.only == "" || s.only == kind }

func (s *c22Sink) viol(clause, kind, detail string) { s.violSig(clause, kind, kind, detail) }

func (s *c22Sink) violSig(clause, kind, sigKind, detail string) {
	s.out["violation"]++
	if k := clause + "/" + kind + "/" + sigKind; !s.seen[k] {
		s.seen[k] = true
		s.viols = append(s.viols, c22V{clause, kind, sigKind, detail})
	}
}

func c22ErrClass(err error) string {
	s := err.Error()
	for _, k := range []string{"PANIC", "has empty path", "conflicting replaces", "set twice with different values", "prefix match", "unrecognized JSON type", "error unmarshalling update", "error finding target schema", "failed to GetOrCreate", "StringToStructuredPath", "cannot convert key value"} {
		if strings.Contains(s, k) {
			return "error:" + strings.ReplaceAll(k, " ", "-")
		}
	}
	return "error:other"
}

func c22IsPanic(err error) bool { return err != nil && strings.HasPrefix(err.Error(), "PANIC") }

func modeName(withSchema bool) string {
	if withSchema {
		return "schema"
	}
	return "noschema"
}

type c22Env struct {
	p  *core.Pkg
	ws bool
	s  *c22Sink
}

// reflexive: DiffSetRequest(a, a) has nothing missing / extra / mismatched.
func (e *c22Env) reflexive(a *c22Spec) {
	if !e.s.want("reflexive") {
		return
	}
	e.s.evals++
	d, err := c22Diff(e.p, a, a, e.ws)
	switch {
	case c22IsPanic(err):
		e.s.viol("panic", "reflexive", fmt.Sprintf("DiffSetRequest(a,a) panicked: %v; a = %s", err, a))
	case err != nil:
		e.s.errOut("refl-", err, a)
	default:
		if ne := c22NonEmpty(d); ne != "" {
			e.s.viol("refl-nonempty", "reflexive", fmt.Sprintf("DiffSetRequest(a,a) is not empty: %s; a = %s", ne, a))
		} else {
			e.s.out["refl-empty"]++
		}
	}
}

// same: a and b carry the same intent; whenever DiffSetRequest returns no error the diff is empty.
func (e *c22Env) same(kind string, a, b *c22Spec) {
	if !e.s.want(kind) {
		return
	}
	e.s.evals++
	d, err := c22Diff(e.p, a, b, e.ws)
	switch {
	case c22IsPanic(err):
		e.s.viol("panic", kind, fmt.Sprintf("DiffSetRequest panicked: %v; a = %s; b = %s", err, a, b))
	case err != nil:
		e.s.errOut("same-", err, a, b)
	default:
		if ne := c22NonEmpty(d); ne != "" {
			e.s.viol("rewrite-nonempty", kind, fmt.Sprintf("same intent but diff %s; a = %s; b = %s", ne, a, b))
		} else {
			e.s.out["same-empty-diff"]++
			if len(d.CommonUpdates) == len(a.Writes) {
				e.s.out["same-empty-diff-and-common-equals-model-leaves"]++
			}
		}
	}
}

// swap: DiffSetRequest(b,a) is DiffSetRequest(a,b) with missing<->extra and A<->B exchanged.
func (e *c22Env) swap(kind string, a, b *c22Spec) {
	if !e.s.want(kind) {
		return
	}
	e.s.evals += 2
	ab, err1 := c22Diff(e.p, a, b, e.ws)
	ba, err2 := c22Diff(e.p, b, a, e.ws)
	switch {
	case c22IsPanic(err1) || c22IsPanic(err2):
		e.s.viol("panic", kind, fmt.Sprintf("DiffSetRequest panicked: %v / %v; a = %s; b = %s", err1, err2, a, b))
	case (err1 == nil) != (err2 == nil):
		e.s.viol("swap-error-asym", kind, fmt.Sprintf("Diff(a,b) err=%v but Diff(b,a) err=%v; a = %s; b = %s", err1, err2, a, b))
	case err1 != nil:
		e.s.errOut("swap-", err1, a, b)
	default:
		if df := c22SwapDiffers(ab, ba); df != "" {
			e.s.viol("swap-differs", kind, fmt.Sprintf("%s; a = %s; b = %s", df, a, b))
		} else if c22NonEmpty(ab) != "" {
			e.s.out["swap-ok-nonempty-diff"]++
			if len(ab.MismatchedUpdates) > 0 {
				e.s.out["swap-ok-with-mismatch"]++
			}
			if len(ab.MissingDeletes)+len(ab.ExtraDeletes) > 0 {
				e.s.out["swap-ok-with-delete-difference"]++
			}
		} else {
			e.s.out["swap-ok-empty-diff"]++
		}
	}
}

func c22ShapeKind(desc string) string {
	switch {
	case desc == "leaf-json":
		return "jsonscalar-vs-typed"
	case desc == "json@0":
		return "jsonroot-vs-leaf"
	}
	return "json-vs-leaf"
}

// c22Eval evaluates the three laws on one state.
func c22Eval(p *core.Pkg, alpha, atoms []*core.Atom, withSchema bool, s *c22Sink) (nleaves int) {
	leaves, ok := c22Leaves(p, atoms)
	if !ok {
		return 0
	}
	e := &c22Env{p: p, ws: withSchema, s: s}
	lossy := 0
	shapes := c22Shapes(leaves, withSchema, &lossy)
	s.out["excluded-lossy-typed-noschema"] += int64(lossy)
	if len(leaves) == 0 {
		e.reflexive(&c22Spec{Desc: "empty"})
		return 0
	}
	canon := shapes[0]
	for i, sh := range shapes {
		e.reflexive(sh)
		if i > 0 {
			k := c22ShapeKind(sh.Desc)
			e.same(k, canon, sh)
			if i == 1 || i == len(shapes)-1 {
				e.swap("swap-same", canon, sh)
			}
		}
		for _, rw := range c22Rewrites(sh) {
			if rw.Kind == "duplicate" || rw.Kind == "leaf-replace" {
				e.reflexive(rw.Spec)
			}
			e.same(rw.Kind, sh, rw.Spec)
		}
	}
	dsh := c22DeleteShapes(leaves, withSchema, &lossy)
	for _, sh := range dsh {
		e.reflexive(sh)
		for _, rw := range c22Rewrites(sh) {
			if rw.Kind == "leaf-replace" {
				continue // a leaf replace below a deleted path is a conflict by definition (error)
			}
			e.same(rw.Kind+"@delete", sh, rw.Spec)
		}
	}
	// non-equivalent neighbours: the argument-swap law with non-empty differences
	if s.want("swap") {
		for _, pa := range c22Partners(alpha, atoms) {
			pl, ok := c22Leaves(p, pa)
			if !ok {
				continue
			}
			ps := c22Shapes(pl, withSchema, &lossy)
			pd := c22DeleteShapes(pl, withSchema, &lossy)
			e.swap("swap", canon, ps[0])
			e.swap("swap", shapes[len(shapes)-1], ps[0])
			lo := 0
			if len(dsh) >= 6 {
				lo = 3 // the shapes that delete / replace below the root
			}
			e.swap("swap", dsh[lo], ps[0])
			if lo < len(pd) {
				e.swap("swap", dsh[lo], pd[lo])
			}
			if lo+1 < len(pd) {
				e.swap("swap", dsh[lo+1], pd[lo+1])
			}
		}
	}
	return len(leaves)
}

// ---- signatures -------------------------------------------------------------------------------

func c22ValClass(v core.Value) string {
	if v.IsLL() {
		return valueKind(v)
	}
	k := v.Kind()
	switch {
	case k == "str":
		var cl []string
		seen := map[string]bool{}
		for _, r := range v.Payload() {
			c := ""
			switch {
			case strings.ContainsRune(`]=[/\: `, r):
				c = string(r)
			case r > 127:
				c = "U"
			}
			if c == " " {
				c = "SP"
			}
			if c == ":" {
				c = "COL" // ':' separates clause and shape in a signature
			}
			if c != "" && !seen[c] {
				seen[c] = true
				cl = append(cl, c)
			}
		}
		sort.Strings(cl)
		if len(cl) > 0 {
			return "str{" + strings.Join(cl, "") + "}"
		}
		return "str"
	case strings.HasPrefix(k, "i") || strings.HasPrefix(k, "u"):
		if f, err := strconv.ParseFloat(v.Payload(), 64); err == nil && (f >= 1e6 || f <= -1e6) {
			return k + "{>=1e6}"
		}
	}
	return k
}

func c22Shape(a *core.Atom) string {
	s := ""
	for _, st := range a.Steps {
		s += "/" + st.Field
		if st.Key != nil {
			var ks []string
			for _, k := range st.Key {
				ks = append(ks, c22ValClass(k))
			}
			s += "[" + strings.Join(ks, ",") + "]"
		}
	}
	if a.Val != core.NoValue {
		s += "=" + valueKind(a.Val)
	}
	return s
}

// c22KeyShape: the atom's shape for a signature; an atom that passes a list entry with an adversarial
// key class is cut after that entry (the key, not what is set inside the entry, is the cause).
func c22KeyShape(a *core.Atom) string {
	x := c22Shape(a)
	if i := strings.LastIndex(x, "}]"); i >= 0 {
		return x[:i+2]
	}
	return x
}

var c22AloneCache sync.Map

// c22Alone reports whether the state holding only atom a already violates some clause (not counting
// violations that are attributed to a leaf added from the alphabet, whose kind carries a [tag]).
func c22Alone(id string, withSchema bool, eval func(atoms []*core.Atom, s *c22Sink), a *core.Atom) bool {
	k := id + "|" + modeName(withSchema) + "|" + a.Name
	if v, ok := c22AloneCache.Load(k); ok {
		return v.(bool)
	}
	s := newC22Sink("")
	eval([]*core.Atom{a}, s)
	r := false
	for _, v := range s.viols {
		if !strings.Contains(v.SigKind, "[") {
			r = true
		}
	}
	c22AloneCache.Store(k, r)
	return r
}

// c22Sig: "<clause>@<mode>/<kind>:<shape of the minimal atoms>". Atoms that violate a clause on their
// own are shown by shape; the others (needed only to have, e.g., a leaf whose value can be changed) are
// summarised as <other>. When no atom is a cause by itself and the kind carries the class of an added
// alphabet leaf ("add[u32{>=1e6}]"), that tag stays; otherwise it is dropped.
func c22Sig(id string, withSchema bool, eval func(atoms []*core.Atom, s *c22Sink), clause, sigKind string, atoms []*core.Atom) string {
	var cause, other []string
	seen := map[string]bool{}
	for _, a := range atoms {
		if len(atoms) == 1 && !strings.Contains(sigKind, "[") || c22Alone(id, withSchema, eval, a) {
			if x := c22KeyShape(a); !seen[x] {
				seen[x] = true
				cause = append(cause, x)
			}
		} else if x := "<" + a.Kind + ">"; !seen[x] {
			seen[x] = true
			other = append(other, x)
		}
	}
	sort.Strings(cause)
	sort.Strings(other)
	if len(cause) > 0 {
		if i := strings.Index(sigKind, "["); i >= 0 {
			sigKind = sigKind[:i]
		}
		if len(other) > 0 {
			cause = append(cause, "<other>")
		}
		return clause + "@" + modeName(withSchema) + "/" + sigKind + ":" + strings.Join(cause, "+")
	}
	return clause + "@" + modeName(withSchema) + "/" + sigKind + ":" + strings.Join(other, "+")
}

type c22Case struct {
	Pkg     string   `json:"pkg"`
	Atoms   []string `json:"atoms"`
	Schema  bool     `json:"schema"`
	Clause  string   `json:"clause"`
	Kind    string   `json:"kind"`
	SigKind string   `json:"sigkind,omitempty"`
}

// c22Find runs the evaluation restricted to kind and returns the violation of the given clause.
func c22Find(eval func(atoms []*core.Atom, s *c22Sink), atoms []*core.Atom, clause, kind, sigKind string) (string, string) {
	s := newC22Sink(kind)
	eval(atoms, s)
	for _, v := range s.viols {
		if v.Clause == clause && v.Kind == kind && v.SigKind == sigKind {
			return clause + "/" + sigKind + ":", v.Detail
		}
	}
	return "", ""
}

// c22Report flushes one state's sink into the reporter, minimising every violation class.
func c22Report(c *core.Ctx, id string, p *core.Pkg, atoms []*core.Atom, withSchema bool, s *c22Sink, eval func(atoms []*core.Atom, s *c22Sink)) {
	c.R.Add("evaluations", s.evals)
	for k, n := range s.out {
		c.R.Add("outcome_"+modeName(withSchema)+"_"+k, n)
		c.R.Outcome(k)
	}
	for k, m := range s.errs {
		if c.R.Get("errsample_"+modeName(withSchema)+"_"+k) == 0 {
			c.R.Add("errsample_"+modeName(withSchema)+"_"+k, 1)
			c.R.Note("error_sample_"+modeName(withSchema)+"_"+k, m)
		}
	}
	for _, v := range s.viols {
		v := v
		min, msig, mdetail := minimise(atoms, func(a []*core.Atom) (string, string) { return c22Find(eval, a, v.Clause, v.Kind, v.SigKind) })
		clause := v.Clause
		if clauseOf(msig) == "unstable" {
			clause = "unstable-" + v.Clause
			mdetail += " [" + v.Detail + "]"
		}
		sig := c22Sig(id, withSchema, eval, clause, v.SigKind, min)
		c.R.Violation(sig, mdetail, c22Case{Pkg: p.Name, Atoms: atomNames(min), Schema: withSchema, Clause: v.Clause, Kind: v.Kind, SigKind: v.SigKind})
	}
}

func runC22(c *core.Ctx) {
	c.Level = "exploration"
	if f := os.Getenv("VCHK_PROF"); f != "" {
		w, _ := os.Create(f)
		pprof.StartCPUProfile(w)
		defer pprof.StopCPUProfile()
	}
	p := core.PkgByName("voccs")
	if p == nil {
		c.R.Violation("setup:no-voccs", "corpus package voccs is not registered", nil)
		return
	}
	c.Rule = "every state with <= 2 atoms (thorough: additionally <= 3 atoms over the focus sub-alphabet) of the compressed OpenConfig-style package voccs, alphabet = derived atoms + interface entries named by 7 adversarial strings; per state the reference Model's leaves are written as per-leaf scalar TypedValue updates, per-leaf JSON_IETF scalar updates and JSON_IETF container updates grouped at every depth (own RFC 7951 renderer), each rewritten by every prefix/path split, every permutation (all for <= 3 updates, reversal and rotation beyond), each leaf (and all leaves) as replace, each update duplicated; the same for requests that delete / replace the enclosing subtrees; with and without schema. Laws: Diff(a,a) empty; Diff(b,a) = swap(Diff(a,b)) (also against neighbouring, non-equivalent states); same intent and no error => empty diff. Non-trivial = state with at least one leaf"
	c.R.Assume("builder/observer correct; own RFC 7951 renderer and scalar TypedValue mapping denote the Model's values; every DiffSetRequest call gets a schema with a fresh Root (populateUpdate writes into schema.Root)")
	c.R.Note("excluded", "without schema, leaves of 64-bit integer and decimal64 types (also as union members / leaf-list elements) are sent as JSON_IETF scalars in the per-leaf typed form: protoLeafToJSON documents int_val/uint_val/double_val as lossy there; errors returned by DiffSetRequest are counted, not judged")
	run := func(alphaOf func(p *core.Pkg) []*core.Atom, k int) {
		exploreAll(c, []*core.Pkg{p}, k, alphaOf, func(sp *core.Space, st core.State) {
			atoms := sp.SeqAtoms(st)
			nl := 0
			for _, ws := range []bool{false, true} {
				ws := ws
				eval := func(a []*core.Atom, s *c22Sink) { c22Eval(p, sp.Atoms, a, ws, s) }
				s := newC22Sink("")
				nl = c22Eval(p, sp.Atoms, atoms, ws, s)
				c22Report(c, "C22", p, atoms, ws, s, eval)
			}
			if nl > 0 {
				c.R.NonTrivial(strings.Join(atomNames(atoms), "+"))
			}
		})
	}
	run(c22Alphabet, 2)
	if c.Thorough() {
		run(c22FocusAlphabet, 3)
	}
	if lv, ok := c22Leaves(p, c22Alphabet(p)[:1]); ok {
		sh := c22Shapes(lv, false, new(int))
		c.R.Sample(map[string]interface{}{"state": atomNames(c22Alphabet(p)[:1]), "request": sh[len(sh)-1].String()})
	}
}

func replayC22(c *core.Ctx, raw []byte) (bool, string) {
	var cs c22Case
	if err := json.Unmarshal(raw, &cs); err != nil {
		return false, err.Error()
	}
	p := core.PkgByName(cs.Pkg)
	if p == nil {
		return false, "unknown package"
	}
	atoms, ok := c22Resolve(p, cs.Atoms)
	if !ok {
		return false, "unknown atoms"
	}
	alpha := c22Alphabet(p)
	return c22Replay(func(a []*core.Atom, s *c22Sink) { c22Eval(p, alpha, a, cs.Schema, s) }, atoms, cs)
}

// c22Replay re-evaluates one recorded case; when it does not fail, the outcome classes and returned
// errors are listed instead.
func c22Replay(eval func(atoms []*core.Atom, s *c22Sink), atoms []*core.Atom, cs c22Case) (bool, string) {
	s := newC22Sink(cs.Kind)
	eval(atoms, s)
	for _, v := range s.viols {
		if v.Clause == cs.Clause && v.Kind == cs.Kind && (cs.SigKind == "" || v.SigKind == cs.SigKind) {
			return true, v.Clause + "/" + v.SigKind + ": " + v.Detail
		}
	}
	d := "not violated; outcomes:"
	for _, k := range core.SortedKeys(s.out) {
		d += fmt.Sprintf(" %s=%d", k, s.out[k])
	}
	for _, k := range core.SortedKeys(s.errs) {
		d += "\n  " + k + ": " + s.errs[k]
	}
	if os.Getenv("VCHK_TRACE") != "" {
		fmt.Fprintln(os.Stderr, d)
	}
	return false, d
}
