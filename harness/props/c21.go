package props

import (
	"encoding/json"
	"fmt"
	"os"
	"os/exec"
	"path/filepath"
	"reflect"
	"runtime"
	"sort"
	"strings"
	"sync"

	gpb "github.com/openconfig/gnmi/proto/gnmi"
	"github.com/openconfig/goyang/pkg/yang"
	"github.com/openconfig/ygot/ygot"
	"github.com/openconfig/ygot/ytypes"
	"github.com/openconfig/ygot/zzverif/core"
	"github.com/openconfig/ygot/zzverif/sched"
	"google.golang.org/protobuf/encoding/prototext"
	"google.golang.org/protobuf/proto"
)

func init() { core.RegisterProp(&core.Prop{ID: "C21", Run: runC21}) }

// c21World is the state shared by the threads of one execution.
type c21World struct {
	p        *core.Pkg
	T, T2    ygot.GoStruct
	cfg      *ygot.RFC7951JSONConfig
	json     []byte
	path     *gpb.Path
	tvStr    *gpb.TypedValue
	pathU8   *gpb.Path
	tvInt    *gpb.TypedValue
	req      *gpb.SetRequest
	getPath  *gpb.Path
	pristine string
}

var c21TreeAtoms = []string{"/Top/Str=str:abc", "/Top/Pstr=str:abc", "/Top/KlStr[str:a]/V=u32:1", "/Top/LlStr=ll:[\"str:a\"]", "/Top/En=enum:RED", "/Top/U8=u8:1", "/Top/Dec=dec:-0.5", "/Top/Un=str:zq", "/Top/Udec=dec:-0.5", "/Top/LlUn=ll:[\"i64:-7\",\"enum:RED\"]", "/Top/Ols/Ol[str:a]/V=u32:1"}

func c21NewWorld(p *core.Pkg) *c21World {
	atoms, ok := p.AtomsByName(c21TreeAtoms)
	if !ok {
		panic("C21: tree atoms not found in " + p.Name)
	}
	t, err := p.Build(atoms)
	if err != nil {
		panic(err)
	}
	more, _ := p.AtomsByName([]string{"/Top/Str=str:a", "/Top/U8=u8:200"})
	t2, _ := p.Build(append(append([]*core.Atom{}, atoms...), more...))
	w := &c21World{p: p, T: t.(ygot.GoStruct), T2: t2.(ygot.GoStruct), cfg: &ygot.RFC7951JSONConfig{}}
	w.json, _ = ygot.Marshal7951(t2, &ygot.RFC7951JSONConfig{AppendModuleName: true})
	w.path = core.Path{{Name: "top"}, {Name: "str"}}.GNMI()
	w.tvStr = &gpb.TypedValue{Value: &gpb.TypedValue_StringVal{StringVal: "ab"}}
	w.pathU8 = core.Path{{Name: "top"}, {Name: "u8"}}.GNMI()
	w.tvInt = &gpb.TypedValue{Value: &gpb.TypedValue_IntVal{IntVal: 7}}
	w.getPath = core.Path{{Name: "top"}, {Name: "kl-str", Keys: []core.KV{{Name: "k", Val: "str:a"}}}, {Name: "v"}}.GNMI()
	w.req = &gpb.SetRequest{
		Prefix: &gpb.Path{Elem: []*gpb.PathElem{{Name: "top"}}},
		Delete: []*gpb.Path{{Elem: []*gpb.PathElem{{Name: "u16"}}}},
		Update: []*gpb.Update{{Path: &gpb.Path{Elem: []*gpb.PathElem{{Name: "str"}}}, Val: &gpb.TypedValue{Value: &gpb.TypedValue_StringVal{StringVal: "a"}}},
			{Path: &gpb.Path{Elem: []*gpb.PathElem{{Name: "pstr"}}}, Val: &gpb.TypedValue{Value: &gpb.TypedValue_StringVal{StringVal: "ab c"}}},
			{Path: &gpb.Path{Elem: []*gpb.PathElem{{Name: "kl-str", Key: map[string]string{"k": "a"}}, {Name: "c"}, {Name: "x"}}}, Val: &gpb.TypedValue{Value: &gpb.TypedValue_StringVal{StringVal: "abc"}}}},
	}
	w.pristine = w.sharedSnapshot()
	return w
}

// sharedSnapshot renders every object the threads share (except the schema, hashed separately).
func (w *c21World) sharedSnapshot() string {
	return strings.Join([]string{deepSnapshot(w.T), deepSnapshot(w.T2), cfgSnapshot(w.cfg), string(w.json),
		prototext.Format(w.path), prototext.Format(w.tvStr), prototext.Format(w.pathU8), prototext.Format(w.tvInt), prototext.Format(w.req), prototext.Format(w.getPath)}, "\x00")
}

// schemaHash is a deterministic digest of the whole yang.Entry graph of the shared schema.
func schemaHash(s *ytypes.Schema) string {
	var b strings.Builder
	names := make([]string, 0, len(s.SchemaTree))
	for n := range s.SchemaTree {
		names = append(names, n)
	}
	sort.Strings(names)
	seen := map[*yang.Entry]bool{}
	var walk func(e *yang.Entry)
	walk = func(e *yang.Entry) {
		if e == nil || seen[e] {
			return
		}
		seen[e] = true
		fmt.Fprintf(&b, "{%s k=%v c=%v key=%q def=%v la=%v pre=%v", e.Name, e.Kind, e.Config, e.Key, e.Default, e.ListAttr != nil, e.Prefix != nil)
		if e.ListAttr != nil {
			fmt.Fprintf(&b, " min=%d max=%d ob=%v", e.ListAttr.MinElements, e.ListAttr.MaxElements, e.ListAttr.OrderedBy != nil)
		}
		if t := e.Type; t != nil {
			fmt.Fprintf(&b, " T(%s %v %v %v %v %v %d %q %d)", t.Name, t.Kind, t.Range, t.Length, t.Pattern, t.POSIXPattern, t.FractionDigits, t.Path, len(t.Type))
		}
		ks := make([]string, 0, len(e.Dir))
		for k := range e.Dir {
			ks = append(ks, k)
		}
		sort.Strings(ks)
		for _, k := range ks {
			b.WriteString(" " + k + ":")
			walk(e.Dir[k])
		}
		fmt.Fprintf(&b, " ann=%d}", len(e.Annotation))
	}
	for _, n := range names {
		b.WriteString(n + "=")
		walk(s.SchemaTree[n])
	}
	return b.String()
}

// c21Op is one operation of the alphabet: run returns a rendering of its result.
type c21Op struct {
	name string
	run  func(w *c21World) string
}

func errStr(err error) string {
	if err == nil {
		return "<nil>"
	}
	return err.Error()
}

func c21Ops() []c21Op {
	return []c21Op{
		{"Validate", func(w *c21World) string {
			v := w.T.(interface {
				Validate(...ygot.ValidationOption) error
			})
			return errStr(v.Validate(&ytypes.LeafrefOptions{IgnoreMissingData: true}))
		}},
		{"Marshal7951", func(w *c21World) string { b, err := ygot.Marshal7951(w.T, w.cfg); return string(b) + errStr(err) }},
		{"TogNMINotifications", func(w *c21World) string {
			ns, err := ygot.TogNMINotifications(w.T, 1, ygot.GNMINotificationsConfig{UsePathElem: true})
			var parts []string
			for _, n := range ns {
				var us []string
				for _, u := range n.Update {
					us = append(us, prototext.Format(u))
				}
				sort.Strings(us)
				parts = append(parts, fmt.Sprintf("atomic=%v pfx=%v %v", n.Atomic, n.Prefix, us))
			}
			sort.Strings(parts)
			return strings.Join(parts, "|") + errStr(err)
		}},
		{"GetNode", func(w *c21World) string {
			ns, err := ytypes.GetNode(w.p.RootSchema(), w.T, w.getPath)
			s := errStr(err)
			for _, n := range ns {
				s += string(w.p.FromGo(reflect.ValueOf(n.Data)))
			}
			return s
		}},
		{"Diff", func(w *c21World) string {
			n, err := ygot.Diff(w.T, w.T2)
			var us []string
			for _, u := range n.GetUpdate() {
				us = append(us, prototext.Format(u))
			}
			for _, d := range n.GetDelete() {
				us = append(us, "del "+prototext.Format(d))
			}
			sort.Strings(us)
			return strings.Join(us, "|") + errStr(err)
		}},
		{"DeepCopy", func(w *c21World) string {
			c, err := ygot.DeepCopy(w.T)
			if err != nil {
				return errStr(err)
			}
			return w.p.Observe(c).Canon()
		}},
		{"EncodeTypedValue", func(w *c21World) string {
			tv, err := ygot.EncodeTypedValue(w.T, gpb.Encoding_JSON_IETF, w.cfg)
			return string(tv.GetJsonIetfVal()) + errStr(err)
		}},
		// writers: each call works on its OWN fresh tree and shares the schema and the input messages
		{"Unmarshal(own)", func(w *c21World) string {
			own := w.p.NewRoot()
			err := w.p.Unmarshal(w.json, own)
			return w.p.Observe(own).Canon() + errStr(err)
		}},
		{"SetNode(own)", func(w *c21World) string {
			own := w.p.NewRoot()
			e1 := ytypes.SetNode(w.p.RootSchema(), own, w.path, w.tvStr, &ytypes.InitMissingElements{}, &ytypes.TolerateJSONInconsistencies{})
			e2 := ytypes.SetNode(w.p.RootSchema(), own, w.pathU8, w.tvInt, &ytypes.InitMissingElements{}, &ytypes.TolerateJSONInconsistencies{})
			return w.p.Observe(own).Canon() + errStr(e1) + errStr(e2)
		}},
		{"UnmarshalSetRequest(own)", func(w *c21World) string {
			own := w.p.NewRoot()
			sch := &ytypes.Schema{Root: own, SchemaTree: w.p.Schema().SchemaTree, Unmarshal: w.p.Schema().Unmarshal}
			err := ytypes.UnmarshalSetRequest(sch, w.req)
			return w.p.Observe(own).Canon() + errStr(err)
		}},
	}
}

type c21Result struct {
	Scenarios   int64            `json:"scenarios"`
	Executions  int64            `json:"executions"`
	Points      int64            `json:"points"`
	MaxPoints   int              `json:"max_points"`
	Outcomes    map[string]int64 `json:"outcomes"`
	Violations  []c21Viol        `json:"violations"`
	Capped      bool             `json:"capped"`
	BoundDone   map[string]int   `json:"bound_done"`
	DistinctSch int              `json:"distinct_schedules_sampled"`
	Preempted   int64            `json:"preempted"` // executions with at least one preemption
}

type c21Viol struct {
	Sig, Detail string
	Case        map[string]interface{}
}

// c21Scenarios enumerates all multisets of n operations.
func c21Scenarios(n, nops int) [][]int {
	var out [][]int
	var rec func(start int, cur []int)
	rec = func(start int, cur []int) {
		if len(cur) == n {
			out = append(out, append([]int{}, cur...))
			return
		}
		for i := start; i < nops; i++ {
			rec(i, append(cur, i))
		}
	}
	rec(0, nil)
	return out
}

func c21Explore(c *core.Ctx, p *core.Pkg, ops []c21Op, scen []int, bound int, reps int, res *c21Result, schemaRef string) {
	// sequential reference results from a cold cache
	ref := make([]string, len(scen))
	for i, oi := range scen {
		ytypes.VerifResetRegexpCache()
		ref[i] = ops[oi].run(c21NewWorld(p))
	}
	names := make([]string, len(scen))
	for i, oi := range scen {
		names[i] = ops[oi].name
	}
	var w *c21World
	var results [][]string
	ex := &sched.Explorer{Bound: bound, Stop: c.Expired}
	ex.Bodies = func() []func() {
		ytypes.VerifResetRegexpCache()
		w = c21NewWorld(p)
		results = make([][]string, len(scen))
		bodies := make([]func(), len(scen))
		for i, oi := range scen {
			i, oi := i, oi
			bodies[i] = func() {
				for r := 0; r < reps; r++ {
					sched.Yield("op " + ops[oi].name)
					results[i] = append(results[i], ops[oi].run(w))
				}
			}
		}
		return bodies
	}
	var pointViolation string
	ex.AtPoint = func() {
		if pointViolation == "" && w.sharedSnapshot() != w.pristine {
			pointViolation = "a shared object was modified (observed at a scheduling point)"
		}
	}
	ex.Check = func(x *sched.Execution) {
		res.Points += int64(len(x.Points))
		report := func(clause, detail string) {
			res.Violations = append(res.Violations, c21Viol{Sig: clause + ":" + strings.Join(names, "+"), Detail: detail,
				Case: map[string]interface{}{"pkg": p.Name, "ops": names, "schedule": x.Schedule(), "choices": x.Choices(), "bound": bound}})
		}
		if x.Deadlock {
			report("deadlock", "no enabled thread although not all threads finished")
		}
		for _, pn := range x.Panics {
			report("panic", pn)
		}
		if pointViolation != "" {
			report("shared-object-written", pointViolation)
			pointViolation = ""
		}
		if w.sharedSnapshot() != w.pristine {
			report("shared-object-written", "a shared object differs from its pristine state after the execution")
		}
		if schemaHash(p.Schema()) != schemaRef {
			report("shared-schema-written", "the shared schema graph changed")
		}
		for i := range scen {
			for r, got := range results[i] {
				if got != ref[i] {
					report("result-differs-from-sequential", fmt.Sprintf("thread %d (%s) run %d: got %.200q want %.200q", i, names[i], r, got, ref[i]))
				}
			}
			if len(results[i]) != reps {
				report("thread-did-not-finish", fmt.Sprintf("thread %d completed %d of %d operations", i, len(results[i]), reps))
			}
		}
		pre, sw := 0, 0
		for _, pt := range x.Points {
			if pt.Running >= 0 && pt.Enabled[pt.Chosen] != pt.Running {
				sw++
				if pt.RunningEnabled {
					pre++
				}
			}
		}
		res.Outcomes[fmt.Sprintf("%d-points/%d-switches/%d-preemptions", len(x.Points), sw, pre)]++
		if pre > 0 {
			res.Preempted++
		}
	}
	ex.Explore()
	res.Scenarios++
	res.Executions += ex.Executions
	if ex.MaxPoints > res.MaxPoints {
		res.MaxPoints = ex.MaxPoints
	}
	if ex.Capped {
		res.Capped = true
	}
	if ex.Err != nil {
		res.Violations = append(res.Violations, c21Viol{Sig: "harness-replay-diverged:" + strings.Join(names, "+"), Detail: ex.Err.Error(), Case: map[string]interface{}{"ops": names}})
	}
	// determinism guard: replay the last explored schedule twice and compare observations
}

func runC21(c *core.Ctx) {
	c.Level = "model_checking"
	nthreads, bound, reps := 2, 2, 2
	if c.Thorough() {
		nthreads, bound = 3, 2
	}
	c.Rule = fmt.Sprintf("cooperative scheduler + depth-first search over ALL interleavings (preemption bound %d, -1 = unbounded) of every multiset of %d thread bodies from a 10-operation alphabet (7 read-only operations on one shared tree: Validate, Marshal7951, TogNMINotifications, GetNode, Diff, DeepCopy, EncodeTypedValue with a shared config; 3 writers into their own trees sharing schema and input messages: Unmarshal, SetNode with JSON tolerance, UnmarshalSetRequest), each body running its operation %d times, scheduling points at every RLock/RUnlock/Lock/Unlock of the regexp cache (ytypes/string_type.go compiled with sync rewritten to the shim) and at operation boundaries, cache reset to cold per execution; per execution: every result equals the sequential result, shared tree / messages / config never written (checked at every scheduling point), shared schema graph unchanged, no deadlock; thorough additionally explores all 2-thread multisets with preemption bound 4. A separate free-running -race pass over the same bodies is complementary sampling evidence (reported under race_pass)", bound, nthreads, reps)
	c.R.Assume("scheduling points only at synchronisation operations and operation boundaries: unsynchronised plain-memory conflicts between those points are covered by the 'shared objects never written' invariant and by the separate -race pass, not by the interleaving search")
	ops := c21Ops()
	pkgs := []*core.Pkg{core.PkgByName("vtus"), core.PkgByName("vtuw")}
	shard := os.Getenv("VERIF_C21_SHARD")
	if shard == "" {
		// parent: fan out over worker processes (the scheduler is process-global)
		n := runtime.NumCPU()
		if n > 16 {
			n = 16
		}
		dir, _ := os.MkdirTemp("", "c21-")
		defer os.RemoveAll(dir)
		var wg sync.WaitGroup
		results := make([]*c21Result, n)
		for i := 0; i < n; i++ {
			i := i
			wg.Add(1)
			go func() {
				defer wg.Done()
				out := filepath.Join(dir, fmt.Sprintf("r%d.json", i))
				cmd := exec.Command(os.Args[0], os.Args[1:]...)
				cmd.Env = append(os.Environ(), fmt.Sprintf("VERIF_C21_SHARD=%d/%d", i, n), "VERIF_C21_OUT="+out, "GOMAXPROCS=2")
				cmd.Stderr = os.Stderr
				cmd.Run()
				b, err := os.ReadFile(out)
				if err != nil {
					return
				}
				r := &c21Result{}
				if json.Unmarshal(b, r) == nil {
					results[i] = r
				}
			}()
		}
		wg.Wait()
		total := &c21Result{Outcomes: map[string]int64{}}
		for i, r := range results {
			if r == nil {
				c.R.Violation("harness-worker-failed", fmt.Sprintf("worker %d produced no result", i), nil)
				continue
			}
			total.Scenarios += r.Scenarios
			total.Executions += r.Executions
			total.Points += r.Points
			total.Preempted += r.Preempted
			if r.MaxPoints > total.MaxPoints {
				total.MaxPoints = r.MaxPoints
			}
			for k, v := range r.Outcomes {
				total.Outcomes[k] += v
			}
			if r.Capped {
				c.R.Capped("deadline")
			}
			for _, v := range r.Violations {
				c.R.Violation(v.Sig, v.Detail, v.Case)
			}
		}
		c.R.Add("states", total.Points)
		c.R.Add("transitions", total.Points)
		c.R.Add("evaluations", total.Executions)
		c.R.Add("traces_validated_against_impl", total.Executions)
		for k, v := range total.Outcomes {
			c.R.OutcomeN(k, v)
		}
		// non-trivial = schedule with at least one preemption (every schedule of the search is distinct)
		c.R.NonTrivialN(total.Preempted)
		c.R.Note("schedules_with_preemption", total.Preempted)
		c.R.Note("scenarios", total.Scenarios)
		c.R.Note("schedules_explored", total.Executions)
		c.R.Note("scheduling_points_total", total.Points)
		c.R.Note("max_points_per_execution", total.MaxPoints)
		c.R.Note("executions_by_number_of_points", total.Outcomes)
		c.R.Note("preemption_bound_completed", bound)
		c.R.Note("threads", nthreads)
		c.R.Sample(map[string]interface{}{"pkg": "vtus", "ops": []string{"Validate", "SetNode(own)"}, "schedule": "every interleaving of their RLock/RUnlock/Lock/Unlock and operation-boundary points"})
		if rp := os.Getenv("VERIF_C21_RACE_RESULT"); rp != "" {
			c.R.Note("race_pass", rp)
		}
		return
	}
	// worker
	var si, sn int
	fmt.Sscanf(shard, "%d/%d", &si, &sn)
	res := &c21Result{Outcomes: map[string]int64{}}
	idx := 0
	for _, p := range pkgs {
		p.Atoms()
		schemaRef := schemaHash(p.Schema())
		var scens [][]int
		scens = append(scens, c21Scenarios(nthreads, len(ops))...)
		if c.Thorough() {
			for _, s := range c21Scenarios(2, len(ops)) {
				scens = append(scens, append([]int{-1}, s...)) // marker: 2 threads with a deeper bound
			}
		}
		for _, sc := range scens {
			idx++
			if idx%sn != si {
				continue
			}
			b := bound
			if sc[0] == -1 {
				sc, b = sc[1:], 4
			}
			c21Explore(c, p, ops, sc, b, reps, res, schemaRef)
		}
	}
	b, _ := json.Marshal(res)
	os.WriteFile(os.Getenv("VERIF_C21_OUT"), b, 0o644)
	os.Exit(0)
}

// C21RaceBodies runs every pair (and triple) of operations as real goroutines with a start barrier;
// used by the separate -race build (see scripts/check.sh).
func C21RaceBodies(rounds int) {
	ops := c21Ops()
	for _, p := range []*core.Pkg{core.PkgByName("vtus"), core.PkgByName("vtuw")} {
		p.Atoms()
		for _, n := range []int{2, 3} {
			for _, sc := range c21Scenarios(n, len(ops)) {
				for r := 0; r < rounds; r++ {
					ytypes.VerifResetRegexpCache()
					w := c21NewWorld(p)
					start := make(chan struct{})
					var wg sync.WaitGroup
					for _, oi := range sc {
						oi := oi
						wg.Add(1)
						go func() {
							defer wg.Done()
							<-start
							ops[oi].run(w)
							ops[oi].run(w)
						}()
					}
					close(start)
					wg.Wait()
				}
			}
		}
	}
	_ = proto.Equal
}
