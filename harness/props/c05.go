package props

import (
	"encoding/json"
	"fmt"
	"reflect"
	"sort"
	"strconv"
	"strings"
	"sync"
	"sync/atomic"

	"github.com/openconfig/ygot/ygot"
	"github.com/openconfig/ygot/zzverif/core"
)

// C05 - MergeStructs has set-union semantics with conflict detection.
//
// Ordered pairs (a, b) of explicit-state search states are merged by the real MergeStructs /
// MergeStructInto and judged against core.RefMerge, a flat reference merge on the observed Models.

func init() { core.RegisterProp(&core.Prop{ID: "C05", Run: runC05, Replay: replayC05}) }

// option sets: "into*" call MergeStructInto on a fresh build of a instead of MergeStructs.
var (
	c05OptsAll  = []string{"none", "overwrite", "emptymaps", "overwrite+emptymaps", "into", "into+overwrite"} // thorough
	c05OptsFull = []string{"none", "overwrite", "emptymaps", "into"}                                          // quick, full alphabet
	c05OptsMain = []string{"none", "overwrite"}
	c05OptsNone = []string{"none"}
)

func c05Overwrite(opt string) bool { return strings.Contains(opt, "overwrite") }
func c05Into(opt string) bool      { return strings.HasPrefix(opt, "into") }

func c05MergeOpts(opt string) []ygot.MergeOpt {
	var out []ygot.MergeOpt
	if strings.Contains(opt, "overwrite") {
		out = append(out, &ygot.MergeOverwriteExistingFields{})
	}
	if strings.Contains(opt, "emptymaps") {
		out = append(out, &ygot.MergeEmptyMaps{})
	}
	return out
}

func safeMergeInto(dst, src ygot.GoStruct, opts []ygot.MergeOpt) (err error) {
	defer recoverTo(&err)
	return ygot.MergeStructInto(dst, src, opts...)
}

// ---- extra leaf-list atoms ------------------------------------------------------------------
//
// The derived alphabet holds [e1], [e1,e2], [e2,e1], [] per leaf-list. For the conflict boundary
// of uniqueSlices two more values per top-level leaf-list are added when the element domain has a
// third member m: [e2,m] (overlaps [e1,e2] in one member, neither contains the other) and [m]
// (disjoint from all of the above).

var (
	c05ExtraMu sync.Mutex
	c05ExtraBy = map[string][]*core.Atom{}
)

func c05FieldType(p *core.Pkg, a *core.Atom) reflect.Type {
	cur := p.RootType
	for i, s := range a.Steps {
		if cur.Kind() == reflect.Ptr {
			cur = cur.Elem()
		}
		if cur.Kind() != reflect.Struct || s.Key != nil || s.Elem {
			return nil
		}
		f, ok := cur.FieldByName(s.Field)
		if !ok {
			return nil
		}
		if i == len(a.Steps)-1 {
			return f.Type
		}
		cur = f.Type
	}
	return nil
}

func c05Extra(p *core.Pkg) []*core.Atom {
	c05ExtraMu.Lock()
	defer c05ExtraMu.Unlock()
	if x, ok := c05ExtraBy[p.Name]; ok {
		return x
	}
	var out []*core.Atom
	seen := map[string]bool{}
	for _, a := range p.Atoms() {
		if a.Kind != "leaflist" || a.Nested {
			continue
		}
		base := strings.TrimSuffix(a.Name, "="+string(a.Val))
		if seen[base] || base == a.Name {
			continue
		}
		seen[base] = true
		ft := c05FieldType(p, a)
		if ft == nil || ft.Kind() != reflect.Slice {
			continue
		}
		dom := p.LeafDomain(ft.Elem(), a.Entry)
		if len(dom) < 3 {
			continue
		}
		e2, mid := dom[len(dom)-1], dom[1]
		if mid == dom[0] || mid == e2 {
			continue
		}
		for _, v := range []core.Value{core.LL(e2, mid), core.LL(mid)} {
			n := *a
			n.Val = v
			n.Name = base + "=" + string(v)
			n.Focus = false
			n.ID = -1
			out = append(out, &n)
		}
	}
	c05ExtraBy[p.Name] = out
	return out
}

func c05Resolve(p *core.Pkg, names []string) ([]*core.Atom, bool) {
	idx := map[string]*core.Atom{}
	for _, a := range c05Extra(p) {
		idx[a.Name] = a
	}
	var out []*core.Atom
	for _, n := range names {
		if a, ok := idx[n]; ok {
			out = append(out, a)
			continue
		}
		as, ok := p.AtomsByName([]string{n})
		if !ok {
			return nil, false
		}
		out = append(out, as[0])
	}
	return out, true
}

// ---- one merge, judged ---------------------------------------------------------------------

// c05State is a search state prepared once: its atoms, its Model and the snapshot of a pristine
// instance (the builder is deterministic, so this is the snapshot of the "twin").
type c05State struct {
	atoms []*core.Atom
	m     *core.Model
	snap  string
}

func c05Prep(p *core.Pkg, atoms []*core.Atom) *c05State {
	t, err := p.Build(atoms)
	if err != nil {
		return nil
	}
	return &c05State{atoms: atoms, m: p.Observe(t), snap: c05Snapshot(t)}
}

// used while minimising, where the same few states recur; bounded so that a tree with very many
// distinct failures cannot exhaust memory
var (
	c05PrepCache  sync.Map
	c05PrepCached int64
)

func c05PrepMemo(p *core.Pkg, atoms []*core.Atom) *c05State {
	key := p.Name + "\x00" + strings.Join(atomNames(atoms), "\x00")
	if v, ok := c05PrepCache.Load(key); ok {
		return v.(*c05State)
	}
	st := c05Prep(p, atoms)
	if atomic.AddInt64(&c05PrepCached, 1) < 50000 {
		c05PrepCache.Store(key, st)
	}
	return st
}

// c05Snapshot renders the complete reachable object graph of a GoStruct (exported and unexported
// fields, nil vs empty slices and maps, dynamic types of interface values, maps sorted by rendered
// key) as a string. Same information as deepSnapshot (c14.go), written directly into a buffer
// because it runs four times per evaluated pair.
func c05Snapshot(t interface{}) string {
	var b strings.Builder
	c05Dump(&b, reflect.ValueOf(t), 0)
	return b.String()
}

func c05Dump(b *strings.Builder, v reflect.Value, depth int) {
	if depth > 40 {
		b.WriteString("...")
		return
	}
	switch v.Kind() {
	case reflect.Ptr:
		if v.IsNil() {
			b.WriteString("nil")
			return
		}
		b.WriteString("&")
		c05Dump(b, v.Elem(), depth+1)
	case reflect.Interface:
		if v.IsNil() {
			b.WriteString("nil")
			return
		}
		b.WriteString("<" + v.Elem().Type().String() + ">")
		c05Dump(b, v.Elem(), depth+1)
	case reflect.Struct:
		b.WriteString(v.Type().Name() + "{")
		for i := 0; i < v.NumField(); i++ {
			f := v.Field(i)
			// nil pointers / interfaces / maps / slices are left out (a field that becomes non-nil appears,
			// one that becomes nil disappears); empty non-nil maps and slices are rendered
			if (f.Kind() == reflect.Ptr || f.Kind() == reflect.Interface || f.Kind() == reflect.Map || f.Kind() == reflect.Slice) && f.IsNil() {
				continue
			}
			b.WriteString(v.Type().Field(i).Name + ":")
			c05Dump(b, f, depth+1)
			b.WriteString(",")
		}
		b.WriteString("}")
	case reflect.Map:
		if v.IsNil() {
			b.WriteString("nil")
			return
		}
		type kv struct {
			k string
			v reflect.Value
		}
		kvs := make([]kv, 0, v.Len())
		it := v.MapRange()
		for it.Next() {
			var kb strings.Builder
			c05Dump(&kb, it.Key(), depth+1)
			kvs = append(kvs, kv{kb.String(), it.Value()})
		}
		sort.Slice(kvs, func(i, j int) bool { return kvs[i].k < kvs[j].k })
		b.WriteString("map[")
		for _, e := range kvs {
			b.WriteString(e.k + "=>")
			c05Dump(b, e.v, depth+1)
			b.WriteString(",")
		}
		b.WriteString("]")
	case reflect.Slice:
		if v.IsNil() {
			b.WriteString("nil")
			return
		}
		if v.Type().Elem().Kind() == reflect.Uint8 {
			b.WriteString("bytes(" + fmt.Sprintf("%x", v.Bytes()) + ")")
			return
		}
		b.WriteString("[")
		for i := 0; i < v.Len(); i++ {
			c05Dump(b, v.Index(i), depth+1)
			b.WriteString(",")
		}
		b.WriteString("]")
	case reflect.String:
		b.WriteString(strconv.Quote(v.String()))
	case reflect.Bool:
		b.WriteString(strconv.FormatBool(v.Bool()))
	case reflect.Int, reflect.Int8, reflect.Int16, reflect.Int32, reflect.Int64:
		b.WriteString(strconv.FormatInt(v.Int(), 10))
	case reflect.Uint, reflect.Uint8, reflect.Uint16, reflect.Uint32, reflect.Uint64:
		b.WriteString(strconv.FormatUint(v.Uint(), 10))
	case reflect.Float32, reflect.Float64:
		b.WriteString(strconv.FormatFloat(v.Float(), 'g', -1, 64))
	default:
		b.WriteString(v.Kind().String())
	}
}

// c05DupKeys reports the first keyed-list field of the tree that holds two entries with the same
// YANG key. That is only possible when the Go map key can hold a pointer (an interface-typed union
// key), so the walk is restricted, by a per-type plan computed once, to the fields that lead to such
// a map.
type c05DupField struct {
	idx      int
	kind     core.FieldKind
	loc      string
	risky    bool     // map whose key type can hold a pointer
	below    bool     // the element / child type leads to a risky map
	keyNames []string // for risky maps
}

var c05DupPlans sync.Map // reflect.Type (struct) -> []c05DupField

func c05KeyCanHoldPointer(t reflect.Type) bool {
	switch t.Kind() {
	case reflect.Interface, reflect.Ptr:
		return true
	case reflect.Struct:
		for i := 0; i < t.NumField(); i++ {
			if c05KeyCanHoldPointer(t.Field(i).Type) {
				return true
			}
		}
	}
	return false
}

func c05DupPlan(p *core.Pkg, t reflect.Type, depth int) []c05DupField {
	if v, ok := c05DupPlans.Load(t); ok {
		return v.([]c05DupField)
	}
	var plan []c05DupField
	if depth <= 12 {
		for i := 0; i < t.NumField(); i++ {
			ft := t.Field(i)
			alts := core.TagPaths(ft)
			if alts == nil {
				continue
			}
			loc := "/" + strings.Join(alts[0], "/")
			switch k := core.KindOfField(ft.Type); k {
			case core.FContainer:
				if len(c05DupPlan(p, ft.Type.Elem(), depth+1)) > 0 {
					plan = append(plan, c05DupField{idx: i, kind: k, loc: loc, below: true})
				}
			case core.FKeyedList:
				d := c05DupField{idx: i, kind: k, loc: loc}
				d.risky = c05KeyCanHoldPointer(ft.Type.Key())
				d.below = len(c05DupPlan(p, ft.Type.Elem().Elem(), depth+1)) > 0
				if d.risky {
					d.keyNames = p.ListKeyNames(ft.Type.Elem())
				}
				if d.risky || d.below {
					plan = append(plan, d)
				}
			}
		}
	}
	c05DupPlans.Store(t, plan)
	return plan
}

func c05DupKeys(p *core.Pkg, v reflect.Value, where string, depth int) string {
	if v.Kind() == reflect.Ptr {
		if v.IsNil() {
			return ""
		}
		v = v.Elem()
	}
	if v.Kind() != reflect.Struct {
		return ""
	}
	for _, d := range c05DupPlan(p, v.Type(), depth) {
		f := v.Field(d.idx)
		loc := where + d.loc
		switch d.kind {
		case core.FContainer:
			if r := c05DupKeys(p, f, loc, depth+1); r != "" {
				return r
			}
		case core.FKeyedList:
			if d.risky && f.Len() > 1 {
				seen := map[string]bool{}
				for _, k := range f.MapKeys() {
					ks := core.PElem{Keys: p.KeyKVs(k, d.keyNames)}.KeyString()
					if seen[ks] {
						return loc
					}
					seen[ks] = true
				}
			}
			if d.below {
				for _, k := range f.MapKeys() {
					if r := c05DupKeys(p, f.MapIndex(k), loc, depth+1); r != "" {
						return r
					}
				}
			}
		}
	}
	return ""
}

// c05Loc strips the keys from a Model path string: the schema location used inside clause names.
func c05Loc(key string, ms ...*core.Model) string {
	for _, m := range ms {
		if m == nil {
			continue
		}
		if pth, ok := m.Paths[key]; ok {
			s := ""
			for _, e := range pth {
				s += "/" + e.Name
			}
			return s
		}
	}
	return "?"
}

func c05NormLL(v core.Value, multiset bool) string {
	if !multiset || !v.IsLL() {
		return string(v)
	}
	es := v.Elems()
	ss := make([]string, len(es))
	for i, e := range es {
		ss[i] = string(e)
	}
	sort.Strings(ss)
	return strings.Join(ss, "\x00")
}

// c05DiffLoc returns the schema location of the first (in sorted path order) node on which two
// Models differ; ms selects collections compared as multisets, dropOrder ordered lists not compared.
func c05DiffLoc(want, got *core.Model, ms, dropOrder func(string) bool) string {
	var keys []string
	for k, v := range want.Leaves {
		g, ok := got.Leaves[k]
		if !ok || c05NormLL(v, ms(k)) != c05NormLL(g, ms(k)) {
			keys = append(keys, k)
		}
	}
	for k := range got.Leaves {
		if _, ok := want.Leaves[k]; !ok {
			keys = append(keys, k)
		}
	}
	for k := range want.Entries {
		if !got.Entries[k] {
			keys = append(keys, k)
		}
	}
	for k := range got.Entries {
		if !want.Entries[k] {
			keys = append(keys, k)
		}
	}
	for k := range want.Presence {
		if !got.Presence[k] {
			keys = append(keys, k)
		}
	}
	for k := range got.Presence {
		if !want.Presence[k] {
			keys = append(keys, k)
		}
	}
	for _, pair := range [][2]*core.Model{{want, got}, {got, want}} {
		for k, v := range pair[0].Order {
			if dropOrder != nil && dropOrder(k) {
				continue
			}
			if strings.Join(v, " ") != strings.Join(pair[1].Order[k], " ") {
				keys = append(keys, k)
			}
		}
		for k, v := range pair[0].Unkeyed {
			x, y := v, pair[1].Unkeyed[k]
			if ms(k) {
				x, y = core.SortedStrings(x), core.SortedStrings(y)
			}
			if strings.Join(x, "\x00") != strings.Join(y, "\x00") {
				keys = append(keys, k)
			}
		}
	}
	if len(keys) == 0 {
		if len(got.Bad) > 0 || len(want.Bad) > 0 {
			return "inconsistent-entry"
		}
		return "?"
	}
	sort.Strings(keys)
	return c05Loc(keys[0], want, got)
}

type c05Res struct {
	clause, detail string // violation when clause != ""
	outcome        string // outcome class otherwise
	ref            *core.MergeResult
	got            *core.Model // Model of the implementation's result (on success)
	comparable     bool        // judged, reference accepts, implementation succeeded and matched
}

// c05One runs Merge(a, b) with the option set and judges it against the reference merge.
func c05One(p *core.Pkg, sa, sb *c05State, opt string) *c05Res {
	a, err := p.Build(sa.atoms)
	if err != nil {
		return &c05Res{outcome: "unbuildable"}
	}
	b, err := p.Build(sb.atoms)
	if err != nil {
		return &c05Res{outcome: "unbuildable"}
	}
	overwrite, into := c05Overwrite(opt), c05Into(opt)
	ref := core.RefMerge(sa.m, sb.m, overwrite)
	res := &c05Res{ref: ref}
	var result ygot.GoStruct
	if into {
		err = safeMergeInto(a.(ygot.GoStruct), b.(ygot.GoStruct), c05MergeOpts(opt))
		result = a.(ygot.GoStruct)
	} else {
		result, err = safeMerge(a.(ygot.GoStruct), b.(ygot.GoStruct), c05MergeOpts(opt))
	}
	if err != nil && strings.HasPrefix(err.Error(), "PANIC") {
		res.clause, res.detail = "merge-panic", err.Error()
		return res
	}
	implOK := err == nil
	judged := true
	switch {
	case ref.Ambiguous():
		// same members in another order: "equal" is not decided by the property for system-ordered collections
		judged = false
		res.outcome = "excluded-permuted-collection"
	case overwrite && ref.NonLeafConflicts() > 0:
		// the property only speaks about leaf conflicts under MergeOverwriteExistingFields
		judged = false
		res.outcome = "excluded-overwrite-with-nonleaf-conflict"
	}
	if judged {
		refOK := len(ref.Conflicts) == 0
		switch {
		case refOK && !implOK:
			res.clause = "rejects-compatible"
			if len(ref.Overwritten) > 0 {
				res.clause = "overwrite-fails-on-leaf-conflict"
			}
			res.detail = fmt.Sprintf("reference merge succeeds (shared nodes: %d, overwritten: %v) but the merge failed: %v", ref.Shared, ref.Overwritten, err)
			return res
		case !refOK && implOK:
			c := ref.Conflicts[0]
			if d := c05DupKeys(p, reflect.ValueOf(result), "", 0); d != "" {
				res.clause, res.detail = "result-duplicate-list-key["+d+"]", "the merged tree holds two map entries with the same YANG key in list "+d
				return res
			}
			res.clause = "accepts-conflict-" + c.Kind + "[" + c05Loc(c.Path, sa.m, sb.m) + "]"
			res.detail = fmt.Sprintf("conflict (%s at %s: %s) but the merge succeeded", c.Kind, c.Path, c.Detail)
			return res
		case !refOK:
			res.outcome = "conflict-detected-" + ref.Conflicts[0].Kind
		default:
			if d := c05DupKeys(p, reflect.ValueOf(result), "", 0); d != "" {
				res.clause, res.detail = "result-duplicate-list-key["+d+"]", "the merged tree holds two map entries with the same YANG key in list "+d
				return res
			}
			res.got = p.Observe(result)
			ms := func(k string) bool { return ref.Concat[k] }
			want, got := core.MergedCanon(ref.Model, ms, nil), core.MergedCanon(res.got, ms, nil)
			if want != got {
				res.clause = "result-differs[" + c05DiffLoc(ref.Model, res.got, ms, nil) + "]"
				res.detail = "result is not the union (- expected only, + observed only): " + core.DiffCanon(want, got)
				return res
			}
			res.comparable = true
			switch {
			case len(ref.Overwritten) > 0:
				res.outcome = "merged-b-wins"
			case len(ref.Concat) > 0 || len(ref.OrderDep) > 0:
				res.outcome = "merged-collections-concatenated"
			case ref.Shared > 0:
				res.outcome = "merged-shared-equal"
			default:
				res.outcome = "merged-disjoint"
			}
		}
	}
	if implOK {
		// a and b must equal their pristine twins after a successful merge
		if !into {
			if s := c05Snapshot(a); s != sa.snap {
				res.clause, res.detail = c05Modified("a", p, sa.m, a)
				return res
			}
		}
		if s := c05Snapshot(b); s != sb.snap {
			res.clause, res.detail = c05Modified("b", p, sb.m, b)
			return res
		}
	}
	return res
}

// c05Modified names the violation "input x differs from its pristine twin": the location is the first
// data node that differs, or "representation" when only Go-level facts (nil vs empty, pointers) do.
func c05Modified(which string, p *core.Pkg, pristine *core.Model, now interface{}) (string, string) {
	m := p.Observe(now)
	none := func(string) bool { return false }
	loc := "representation"
	if pristine.Canon() != m.Canon() {
		loc = c05DiffLoc(pristine, m, none, nil)
	}
	return "input-" + which + "-modified[" + loc + "]", which + " differs from its pristine twin after the merge (- pristine only, + now only): " + core.DiffCanon(pristine.StateKey(), m.StateKey())
}

// c05Comm compares Merge(a,b) with Merge(b,a); only called when both were comparable.
func c05Comm(r1, r2 *c05Res) (string, string) {
	all := func(string) bool { return true }
	drop := func(k string) bool { return r1.ref.OrderDep[k] || r2.ref.OrderDep[k] }
	x, y := core.MergedCanon(r1.got, all, drop), core.MergedCanon(r2.got, all, drop)
	if x != y {
		return "not-commutative[" + c05DiffLoc(r1.got, r2.got, all, drop) + "]", "Merge(a,b) and Merge(b,a) differ (- only in Merge(a,b), + only in Merge(b,a)): " + core.DiffCanon(x, y)
	}
	return "", ""
}

// c05Check is the replayable form: mode "ab" judges Merge(a,b); mode "comm" the commutativity law.
// wantClause != "" filters (used while minimising).
func c05Check(p *core.Pkg, aa, ba []*core.Atom, opt, mode, wantClause string) (string, string) {
	sa, sb := c05PrepMemo(p, aa), c05PrepMemo(p, ba)
	if sa == nil || sb == nil {
		return "", ""
	}
	var clause, detail string
	if mode == "comm" {
		r1, r2 := c05One(p, sa, sb, opt), c05One(p, sb, sa, opt)
		if r1.comparable && r2.comparable {
			clause, detail = c05Comm(r1, r2)
		}
	} else {
		r := c05One(p, sa, sb, opt)
		clause, detail = r.clause, r.detail
	}
	if clause == "" || (wantClause != "" && clause != wantClause) {
		return "", ""
	}
	return clause + ":", detail
}

// c05Canonise replaces, position by position (b side first), every atom of a minimal failing pair
// by the FIRST atom of the alphabet (simplest-first order) that still shows the same clause, so that
// a failure whose partner atom is arbitrary ("anything that instantiates the container") gets one
// stable signature instead of one per partner. Searches are memoised on (context, position).
var (
	c05CanonMu   sync.Mutex
	c05CanonMemo = map[string]*core.Atom{}
)

func c05Canonise(p *core.Pkg, ma, mb []*core.Atom, opt, mode, clause string) ([]*core.Atom, []*core.Atom) {
	alphabet := append(append([]*core.Atom{}, p.Atoms()...), c05Extra(p)...)
	ma, mb = append([]*core.Atom{}, ma...), append([]*core.Atom{}, mb...)
	pass := func(side string, seq []*core.Atom, check func([]*core.Atom) bool) {
		for i := range seq {
			rest := append(append([]*core.Atom{}, seq[:i]...), seq[i+1:]...)
			other := ma
			if side == "a" {
				other = mb
			}
			key := strings.Join([]string{p.Name, opt, mode, clause, side, fmt.Sprint(i), strings.Join(atomNames(rest), "+"), strings.Join(atomNames(other), "+")}, "|")
			c05CanonMu.Lock()
			r, ok := c05CanonMemo[key]
			c05CanonMu.Unlock()
			if !ok {
				// the first atom of the whole alphabet that reproduces (the current one does, so the
				// answer does not depend on it and can be shared by every case with this context)
				r = seq[i]
				for _, x := range alphabet {
					cand := append([]*core.Atom{}, seq...)
					cand[i] = x
					if check(cand) {
						r = x
						break
					}
				}
				c05CanonMu.Lock()
				c05CanonMemo[key] = r
				c05CanonMu.Unlock()
			}
			seq[i] = r
		}
	}
	pass("b", mb, func(x []*core.Atom) bool { s, _ := c05Check(p, ma, x, opt, mode, clause); return s != "" })
	pass("a", ma, func(x []*core.Atom) bool { s, _ := c05Check(p, x, mb, opt, mode, clause); return s != "" })
	return ma, mb
}

func c05Report(c *core.Ctx, p *core.Pkg, aa, ba []*core.Atom, opt, mode, clause, detail string) {
	ma, mb := aa, ba
	ma, _, _ = minimise(ma, func(x []*core.Atom) (string, string) { return c05Check(p, x, mb, opt, mode, clause) })
	mb, s2, d2 := minimise(mb, func(x []*core.Atom) (string, string) { return c05Check(p, ma, x, opt, mode, clause) })
	if s2 == "" || clauseOf(s2) == "unstable" {
		ma, mb, d2 = aa, ba, detail
	} else {
		ma, mb = c05Canonise(p, ma, mb, opt, mode, clause)
		ma, _, _ = minimise(ma, func(x []*core.Atom) (string, string) { return c05Check(p, x, mb, opt, mode, clause) })
		var s3, d3 string
		mb, s3, d3 = minimise(mb, func(x []*core.Atom) (string, string) { return c05Check(p, ma, x, opt, mode, clause) })
		if s3 != "" && clauseOf(s3) != "unstable" {
			d2 = d3
		}
	}
	c.R.Violation(sigFor(clause+"@"+opt, ma)+" || "+sigFor("", mb), d2, pairCase{Pkg: p.Name, A: atomNames(ma), B: atomNames(mb), Opt: opt, Mode: mode})
}

// ---- exploration ---------------------------------------------------------------------------

type c05Space struct {
	tag    string
	states []*c05State
}

func c05Prepare(p *core.Pkg, sp *core.Space, tag string) *c05Space {
	out := &c05Space{tag: tag, states: make([]*c05State, len(sp.States))}
	core.ParallelFor(len(sp.States), func(i int) {
		out.states[i] = c05Prep(p, sp.SeqAtoms(sp.States[i]))
	})
	return out
}

// c05Pairs evaluates every ordered pair (x from xs, y from ys) in both directions plus the
// commutativity law. When xs == ys only i <= j is visited (both directions are evaluated there).
func c05Pairs(c *core.Ctx, p *core.Pkg, xs, ys *c05Space, opts []string) {
	same := xs == ys
	n := len(xs.states)
	core.ParallelFor(n, func(i int) {
		if c.Expired() {
			return
		}
		sa := xs.states[i]
		if sa == nil {
			return
		}
		local := map[string]int64{}
		var evals, pairs int64
		j0 := 0
		if same {
			j0 = i
		}
		for j := j0; j < len(ys.states); j++ {
			sb := ys.states[j]
			if sb == nil {
				continue
			}
			shared := 0
			for _, opt := range opts {
				r1 := c05One(p, sa, sb, opt)
				if r1.ref != nil {
					shared = r1.ref.Shared
				}
				evals++
				if r1.clause != "" {
					c05Report(c, p, sa.atoms, sb.atoms, opt, "ab", r1.clause, r1.detail)
					local["violation"]++
				} else {
					local[r1.outcome+"@"+opt]++
				}
				if same && i == j {
					continue
				}
				r2 := c05One(p, sb, sa, opt)
				evals++
				if r2.clause != "" {
					c05Report(c, p, sb.atoms, sa.atoms, opt, "ab", r2.clause, r2.detail)
					local["violation"]++
				} else {
					local[r2.outcome+"@"+opt]++
				}
				if c05Overwrite(opt) || c05Into(opt) {
					continue
				}
				if r1.comparable && r2.comparable {
					if cl, d := c05Comm(r1, r2); cl != "" {
						c05Report(c, p, sa.atoms, sb.atoms, opt, "comm", cl, d)
						local["violation"]++
					} else {
						local["commutes@"+opt]++
					}
				}
			}
			if same && i == j {
				pairs++
			} else {
				pairs += 2
			}
			// non-trivial: both trees are populated and touch a common node
			if len(sa.atoms) > 0 && len(sb.atoms) > 0 && (!same || i != j) {
				if shared > 0 {
					c.R.NonTrivial(p.Name + xs.tag + "|" + strings.Join(atomNames(sa.atoms), "+") + "|" + strings.Join(atomNames(sb.atoms), "+"))
				}
			}
		}
		c.R.Add("evaluations", evals)
		c.R.Add("traces_validated_against_impl", evals)
		c.R.Add("transitions", pairs)
		for k, v := range local {
			c.R.OutcomeN(k, v)
		}
	})
}

// c05Sample writes one fixed pair of the space, with the verdict of the plain merge, into the evidence.
func c05Sample(c *core.Ctx, p *core.Pkg, sp *c05Space) {
	m := len(sp.states)
	if m < 4 || sp.states[m/2] == nil || sp.states[m/3] == nil {
		return
	}
	a, b := sp.states[m/2], sp.states[m/3]
	r := c05One(p, a, b, "none")
	verdict := r.outcome
	if r.clause != "" {
		verdict = "violation " + r.clause
	}
	c.R.Sample(map[string]interface{}{"pkg": p.Name, "a": atomNames(a.atoms), "b": atomNames(b.atoms), "opt": "none", "verdict": verdict})
}

func runC05(c *core.Ctx) {
	c.Level = "model_checking"
	c.Rule = "ordered pairs (a,b) of explicit-state search states, merged by the real MergeStructs / MergeStructInto and judged against a flat reference merge on the observed Models: (1) all pairs of k<=1 states over the full derived alphabet plus two extra values per leaf-list ([e2,m], [m]) x {none, MergeOverwriteExistingFields, MergeEmptyMaps, MergeStructInto} (thorough: + overwrite+emptymaps, MergeStructInto+overwrite); (2) all pairs of k<=2 states over the ordered-list / unkeyed-list atoms (disjoint, same-order subsets, reorders, partial overlaps, nested leaf conflicts) x {none, overwrite}; (3) all pairs of k<=2 states over the leaf-list atoms (equal, disjoint, overlapping, permuted, empty non-nil) x {none} (thorough: + overwrite); thorough: (4) k<=2 x k<=1 over the focused alphabet x {none, overwrite}; quick: packages vtus, vtuw, voccs, vocuw, thorough: all 8. Per ordered pair: success <=> reference success, result Model == union (concatenated system-ordered collections as multisets, ordered-by-user order exact), a and b equal their pristine twins after a successful merge, Merge(a,b) ~ Merge(b,a) when the reference accepts both orders, overwrite: never fails on leaf conflicts and b wins. non-trivial = pair of populated trees that set a common leaf / leaf-list / list"
	c.R.Assume("the builder is deterministic: the snapshot of a pristine build of the same atoms stands for the twin of an input")
	c.R.Assume("not judged (counted as excluded-*): leaf-lists / unkeyed lists holding the same members in another order; under MergeOverwriteExistingFields any pair with a leaf-list / unkeyed / ordered-list conflict; inputs after a failed merge; the order of concatenated leaf-lists; the relative order of two disjoint ordered-by-user lists in the commutativity law")
	pkgs := core.Packages()
	if !c.Thorough() {
		pkgs = nil
		for _, n := range []string{"vtus", "vtuw", "voccs", "vocuw"} {
			pkgs = append(pkgs, core.PkgByName(n))
		}
	}
	for _, p := range pkgs {
		if c.Expired() {
			break
		}
		extra := c05Extra(p)
		// (1) full alphabet, k <= 1
		fullAtoms := append(append([]*core.Atom{}, p.Atoms()...), extra...)
		full := core.Explore(p, fullAtoms, 1)
		fs := c05Prepare(p, full, "f")
		c.R.Add("states", int64(len(fs.states)))
		optsFull := c05OptsFull
		if c.Thorough() {
			optsFull = c05OptsAll
		}
		c05Pairs(c, p, fs, fs, optsFull)
		// (2) ordered-by-user and unkeyed lists, k <= 2
		var ord, lls []*core.Atom
		for _, a := range p.Atoms() {
			if a.Ord {
				ord = append(ord, a)
			}
			if a.Kind == "leaflist" {
				lls = append(lls, a)
			}
		}
		lls = append(lls, extra...)
		note := map[string]interface{}{"atoms_full": len(fullAtoms), "states_full_k1": len(fs.states), "atoms_ordered": len(ord), "atoms_leaflist": len(lls)}
		if len(ord) > 0 {
			os := c05Prepare(p, core.Explore(p, ord, 2), "o")
			c.R.Add("states", int64(len(os.states)))
			note["states_ordered_k2"] = len(os.states)
			c05Pairs(c, p, os, os, c05OptsMain)
			c05Sample(c, p, os)
		}
		// (3) leaf-lists, k <= 2
		if len(lls) > 0 {
			ls := c05Prepare(p, core.Explore(p, lls, 2), "l")
			c.R.Add("states", int64(len(ls.states)))
			note["states_leaflist_k2"] = len(ls.states)
			opts := c05OptsNone
			if c.Thorough() {
				opts = c05OptsMain
			}
			c05Pairs(c, p, ls, ls, opts)
			c05Sample(c, p, ls)
		}
		// (4) thorough: focused alphabet, k <= 2 x k <= 1
		if c.Thorough() {
			foc := core.FocusAtoms(p.Atoms())
			two := c05Prepare(p, core.Explore(p, foc, 2), "t")
			one := c05Prepare(p, core.Explore(p, foc, 1), "u")
			c.R.Add("states", int64(len(two.states)))
			note["states_focus_k2"] = len(two.states)
			note["states_focus_k1"] = len(one.states)
			c05Pairs(c, p, two, one, c05OptsMain)
		}
		c.R.Note("space_"+p.Name, note)
	}
}

func replayC05(c *core.Ctx, raw []byte) (bool, string) {
	var pc pairCase
	if err := json.Unmarshal(raw, &pc); err != nil {
		return false, err.Error()
	}
	p := core.PkgByName(pc.Pkg)
	if p == nil {
		return false, "unknown package"
	}
	aa, ok := c05Resolve(p, pc.A)
	ba, ok2 := c05Resolve(p, pc.B)
	if !ok || !ok2 {
		return false, "unknown atoms"
	}
	sig, d := c05Check(p, aa, ba, pc.Opt, pc.Mode, "")
	return sig != "", sig + " " + d
}
