package props

// C31 - Unmarshal merges into existing data as documented.
//
// Pairs (existing tree t1, document derived from tree t2): the document is the reference rendering
// refjson(Model(t2)) (never ygot's own output), optionally with one unknown member added at one
// object position. It is unmarshalled with the generated Unmarshal into a fresh copy of t1; the
// observed result must be the reference merge computed on Models.

import (
	"encoding/json"
	"fmt"
	"reflect"
	"sort"
	"strings"
	"sync/atomic"

	"github.com/openconfig/ygot/ygot"
	"github.com/openconfig/ygot/ytypes"
	"github.com/openconfig/ygot/zzverif/core"
)

func init() { core.RegisterProp(&core.Prop{ID: "C31", Run: runC31, Replay: replayC31}) }

const c31Unknown = "zz-unknown"

// c31Doc is one document variant derived from t2.
type c31Doc struct {
	name    string // plain | prefixed | unk<i>[o]
	json    []byte
	unknown bool
	where   string // unknown: names-only path of the object that got the unknown member
}

// c31Objects lists every JSON object of a parsed document in a fixed order (members by name,
// array elements by position).
func c31Objects(v interface{}, path string, out *[]map[string]interface{}, paths *[]string) {
	switch x := v.(type) {
	case map[string]interface{}:
		*out = append(*out, x)
		if path == "" {
			*paths = append(*paths, "/")
		} else {
			*paths = append(*paths, path)
		}
		for _, k := range core.SortedKeys(x) {
			c31Objects(x[k], path+"/"+k, out, paths)
		}
	case []interface{}:
		for _, e := range x {
			c31Objects(e, path+"[]", out, paths)
		}
	}
}

// c31Docs derives the document variants from the model of t2: the plain rendering (bare names), the
// RFC 7951 rendering (module-prefixed names and identities), and per object position one document
// with an unknown member (scalar value; with objectToo also one whose unknown member is an object).
func c31Docs(rs *core.RefSchema, m2 *core.Model, objectToo bool) ([]c31Doc, error) {
	plain, err := rs.RefJSONBytes(m2, core.RefJSONOpts{})
	if err != nil {
		return nil, err
	}
	pref, err := rs.RefJSONBytes(m2, core.RefJSONOpts{ModulePrefixes: true, IdentityPrefixes: true})
	if err != nil {
		return nil, err
	}
	docs := []c31Doc{{name: "plain", json: plain}, {name: "prefixed", json: pref}}
	tree, err := core.ParseJSONDoc(plain)
	if err != nil {
		return nil, err
	}
	var objs []map[string]interface{}
	var paths []string
	c31Objects(tree, "", &objs, &paths)
	for i, o := range objs {
		o[c31Unknown] = json.Number("1")
		b, _ := json.Marshal(tree)
		docs = append(docs, c31Doc{name: fmt.Sprintf("unk%d", i), json: b, unknown: true, where: paths[i]})
		if objectToo {
			o[c31Unknown] = map[string]interface{}{"x": []interface{}{nil}}
			b, _ := json.Marshal(tree)
			docs = append(docs, c31Doc{name: fmt.Sprintf("unk%do", i), json: b, unknown: true, where: paths[i]})
		}
		delete(o, c31Unknown)
	}
	return docs, nil
}

func c31Unmarshal(p *core.Pkg, doc []byte, dst ygot.GoStruct, ignore bool) (err error) {
	defer recoverTo(&err)
	if ignore {
		return p.Unmarshal(doc, dst, &ytypes.IgnoreExtraFields{})
	}
	return p.Unmarshal(doc, dst)
}

// c31Merge is the reference: t1 overridden by t2's leaves (a leaf-list is one value, so it is
// replaced wholesale), list entries and presence containers united, ordered-by-user lists: the
// existing entries followed by the new ones in document order. excluded != "" names a region the
// statement / documentation does not decide.
func c31Merge(m1, m2 *core.Model) (want *core.Model, excluded string) {
	if len(m2.Unkeyed) > 0 {
		return nil, "excluded-unkeyed-list-in-document(no keys to merge by)"
	}
	w := m1.Clone()
	for k, v := range m2.Leaves {
		w.Leaves[k] = v
	}
	for k := range m2.Entries {
		w.Entries[k] = true
	}
	for k := range m2.Presence {
		w.Presence[k] = true
	}
	for k, o2 := range m2.Order {
		have := map[string]bool{}
		for _, e := range m1.Order[k] {
			have[e] = true
		}
		for _, e := range o2 {
			if have[e] {
				return nil, "excluded-ordered-list-holds-key(documented: ordered-by-user lists are unmarshalled as a whole)"
			}
		}
		w.Order[k] = append(append([]string(nil), m1.Order[k]...), o2...)
	}
	return w, ""
}

// c31Where abstracts a model path to its schema node (names only) plus the kind of value.
func c31Where(m *core.Model, k string, v core.Value) string {
	w := ""
	for _, e := range m.Paths[k] {
		w += "/" + e.Name
	}
	if v != core.NoValue {
		w += "=" + valueKind(v)
	}
	return w
}

// c31Classify names what differs between the wanted and the observed result and where (schema
// node of the first difference in sorted order).
func c31Classify(m1, m2, want, got *core.Model) (string, string) {
	for _, k := range core.SortedKeys(want.Leaves) {
		g, ok := got.Leaves[k]
		if ok && g == want.Leaves[k] {
			continue
		}
		where := c31Where(want, k, want.Leaves[k])
		if _, mentioned := m2.Leaves[k]; !mentioned {
			return "unmentioned-value-changed", where
		}
		if want.Leaves[k].IsLL() {
			return "leaflist-not-replaced", where
		}
		if !ok {
			return "mentioned-leaf-missing", where
		}
		return "leaf-not-overwritten", where
	}
	for _, k := range core.SortedKeys(got.Leaves) {
		if _, ok := want.Leaves[k]; !ok {
			return "spurious-leaf", c31Where(got, k, got.Leaves[k])
		}
	}
	for _, k := range core.SortedKeys(want.Entries) {
		if !got.Entries[k] {
			if m1.Entries[k] && !m2.Entries[k] {
				return "unmentioned-entry-lost", c31Where(want, k, core.NoValue)
			}
			return "entry-missing", c31Where(want, k, core.NoValue)
		}
	}
	for _, k := range core.SortedKeys(got.Entries) {
		if !want.Entries[k] {
			return "spurious-entry", c31Where(got, k, core.NoValue)
		}
	}
	for _, k := range core.SortedKeys(want.Presence) {
		if !got.Presence[k] {
			return "presence-missing", c31Where(want, k, core.NoValue)
		}
	}
	for _, k := range core.SortedKeys(got.Presence) {
		if !want.Presence[k] {
			return "spurious-presence", c31Where(got, k, core.NoValue)
		}
	}
	for _, k := range core.SortedKeys(want.Order) {
		if strings.Join(got.Order[k], " ") != strings.Join(want.Order[k], " ") {
			return "ordered-list-order", c31Where(want, k, core.NoValue)
		}
	}
	return "other", ""
}

// c31DupKeys walks the real GoStruct and reports every keyed list (Go map) that holds two entries
// whose keys denote the same YANG key tuple (possible when the map key is an interface holding a
// pointer, as for wrapper unions): the observer's Model cannot represent that, so it is checked on
// the object itself. Returns "<field path>[<key kinds>]" per affected list.
func c31DupKeys(p *core.Pkg, v reflect.Value, path string, out *[]string) {
	if v.Kind() == reflect.Ptr {
		if v.IsNil() {
			return
		}
		v = v.Elem()
	}
	if v.Kind() != reflect.Struct {
		return
	}
	for i := 0; i < v.NumField(); i++ {
		f := v.Type().Field(i)
		if core.TagPaths(f) == nil {
			continue
		}
		fv := v.Field(i)
		fp := path + "/" + f.Name
		switch core.KindOfField(f.Type) {
		case core.FContainer:
			c31DupKeys(p, fv, fp, out)
		case core.FKeyedList:
			keyNames := p.ListKeyNames(f.Type.Elem())
			seen := map[string]bool{}
			for _, k := range fv.MapKeys() {
				kvs := p.KeyKVs(k, keyNames)
				ks := core.PElem{Keys: kvs}.KeyString()
				if seen[ks] {
					kinds := make([]string, len(kvs))
					for i, kv := range kvs {
						kinds[i] = kv.Val.Kind()
					}
					*out = append(*out, fp+"["+strings.Join(kinds, ",")+"]")
				}
				seen[ks] = true
				c31DupKeys(p, fv.MapIndex(k), fp, out)
			}
		case core.FOrderedList:
			if fv.IsNil() {
				continue
			}
			vals := fv.MethodByName("Values").Call(nil)[0]
			for j := 0; j < vals.Len(); j++ {
				c31DupKeys(p, vals.Index(j), fp, out)
			}
		case core.FUnkeyedList:
			for j := 0; j < fv.Len(); j++ {
				c31DupKeys(p, fv.Index(j), fp, out)
			}
		}
	}
}

type c31State struct {
	atoms []*core.Atom
	m     *core.Model
	docs  []c31Doc
	base  string // "" when the plain document is accepted on an empty root and yields exactly t2
}

func c31Prepare(p *core.Pkg, rs *core.RefSchema, atoms []*core.Atom, withDocs, objectToo bool) (*c31State, error) {
	t, err := p.Build(atoms)
	if err != nil {
		return nil, err
	}
	s := &c31State{atoms: atoms, m: p.Observe(t)}
	if !withDocs {
		return s, nil
	}
	if len(s.m.Unkeyed) > 0 {
		return s, nil
	}
	if s.docs, err = c31Docs(rs, s.m, objectToo); err != nil {
		return nil, err
	}
	// the document must be acceptable by itself: what Unmarshal does with it on an empty root is C01 / C18 matter
	for _, d := range s.docs[:2] {
		fresh := p.NewRoot()
		if err := c31Unmarshal(p, d.json, fresh, false); err != nil {
			s.base = "excluded-document-rejected-on-empty-root(C01/C18 matter)"
			break
		}
		if p.Observe(fresh).Canon() != s.m.Canon() {
			s.base = "excluded-document-not-reproduced-on-empty-root(C01/C18 matter)"
			break
		}
	}
	return s, nil
}

// c31Eval judges one (t1, t2-document, option) case. Returns the violated clause or "" and an outcome class.
// where abstracts the place of the failure to a schema node (part of the signature).
func c31Eval(p *core.Pkg, s1, s2 *c31State, want *core.Model, wantCanon string, d c31Doc, ignore bool) (clause, where, detail, outcome string) {
	return c31EvalShare(p, s1, s2, want, wantCanon, d, ignore, false)
}

// c31EvalShare: with share, equal leaves / leaf-lists of t1 share one variable / one slice (user code
// that fills several nodes from one template value): a decoder that overwrites the old storage in
// place, instead of storing a new value, changes nodes the document does not mention.
func c31EvalShare(p *core.Pkg, s1, s2 *c31State, want *core.Model, wantCanon string, d c31Doc, ignore, share bool) (clause, where, detail, outcome string) {
	t, err := p.Build(s1.atoms)
	if err != nil {
		return "", "", "", "builder-conflict"
	}
	if share && core.ShareLeafPointers(t) == 0 {
		return "", "", "", "shared:nothing-to-share"
	}
	err = c31Unmarshal(p, d.json, t.(ygot.GoStruct), ignore)
	if err != nil && strings.HasPrefix(err.Error(), "PANIC") {
		return "panic", sigFor("", s1.atoms) + " <- " + sigFor("", s2.atoms), fmt.Sprintf("Unmarshal panicked: %v doc=%s", err, d.json), ""
	}
	if d.unknown && !ignore {
		if err == nil {
			return "unknown-member-accepted", d.where, fmt.Sprintf("document with unknown member %q in object %s was accepted without IgnoreExtraFields: %s", c31Unknown, d.where, d.json), ""
		}
		return "", "", "", "unknown-member-rejected"
	}
	pfx := ""
	if d.unknown {
		pfx = "ignore-extra-fields-"
	}
	if err != nil {
		return pfx + "merge-error", sigFor("", s1.atoms) + " <- " + sigFor("", s2.atoms), fmt.Sprintf("Unmarshal(ignore=%v) into populated tree failed: %v doc=%s", ignore, err, d.json), ""
	}
	var dups []string
	if c31DupKeys(p, reflect.ValueOf(t), "", &dups); len(dups) > 0 {
		sort.Strings(dups)
		return "duplicate-entry-for-key", dups[0], fmt.Sprintf("%s: after Unmarshal the list map holds two entries for one key tuple (the existing entry was not updated, a second one was inserted) doc=%s", dups[0], d.json), ""
	}
	got := p.Observe(t)
	if gc := got.Canon(); gc != wantCanon {
		cl, wh := c31Classify(s1.m, s2.m, want, got)
		return pfx + cl, wh, fmt.Sprintf("result differs from the reference merge (ignore=%v): %s [t1=%v] doc=%s", ignore, core.DiffCanon(wantCanon, gc), atomNames(s1.atoms), d.json), ""
	}
	if d.unknown {
		return "", "", "", "unknown-member-skipped-rest-applied"
	}
	return "", "", "", "merged-as-reference"
}

func c31VariantName(d c31Doc, ignore bool) string {
	if ignore {
		return d.name + "/ignore"
	}
	return d.name + "/none"
}

// light: only the variants plain/none and unknown/ignore (used for the large thorough pair sets).
func c31Pairs(c *core.Ctx, p *core.Pkg, rs *core.RefSchema, left, right [][]*core.Atom, tag string, objectToo, light bool) {
	ls := make([]*c31State, len(left))
	rsx := make([]*c31State, len(right))
	var prepErr atomic.Value
	core.ParallelFor(len(left), func(i int) {
		s, err := c31Prepare(p, rs, left[i], false, false)
		if err != nil {
			prepErr.Store(err)
			return
		}
		ls[i] = s
	})
	core.ParallelFor(len(right), func(j int) {
		s, err := c31Prepare(p, rs, right[j], true, objectToo)
		if err != nil {
			prepErr.Store(err)
			return
		}
		rsx[j] = s
	})
	if e := prepErr.Load(); e != nil {
		c.R.Violation("reference-error:prepare", fmt.Sprint(e), nil)
		return
	}
	var stop int32
	core.ParallelFor(len(ls), func(i int) {
		if atomic.LoadInt32(&stop) != 0 {
			return
		}
		if i%16 == 0 && c.Expired() {
			atomic.StoreInt32(&stop, 1)
			return
		}
		s1 := ls[i]
		for j, s2 := range rsx {
			c.R.Add("transitions", 1)
			if len(s2.m.Unkeyed) > 0 {
				c.R.Outcome("excluded-unkeyed-list-in-document(no keys to merge by)")
				continue
			}
			if s2.base != "" {
				c.R.Outcome(s2.base)
				continue
			}
			want, excl := c31Merge(s1.m, s2.m)
			if excl != "" {
				c.R.Outcome(excl)
				continue
			}
			wantCanon := want.Canon()
			if len(s1.atoms) > 0 && len(s2.atoms) > 0 {
				c.R.NonTrivial(p.Name + tag + fmt.Sprint(i, "/", j))
			}
			for _, d := range s2.docs {
				for _, ignore := range []bool{false, true} {
					if d.name == "prefixed" && ignore {
						continue
					}
					if light && (d.name == "prefixed" || d.unknown != ignore) {
						continue
					}
					c.R.Add("evaluations", 1)
					c.R.Add("traces_validated_against_impl", 1)
					share := tag == "shared"
					clause, where, detail, outcome := c31EvalShare(p, s1, s2, want, wantCanon, d, ignore, share)
					if clause == "" {
						if share && !strings.HasPrefix(outcome, "shared:") {
							outcome = "shared:" + outcome
						}
						c.R.Outcome(outcome)
						continue
					}
					if share {
						clause += "(t1-with-shared-leaf-storage)"
					}
					c.R.Outcome("violation")
					// signature: clause and the schema node where the result deviates (not the whole pair and not
					// the document variant: a general regression would otherwise yield thousands of signatures)
					sig := clause + ":" + where // the variant is in the replay case and the detail
					opt := c31VariantName(d, ignore)
					if share {
						opt += "+shared"
					}
					c.R.Violation(sig, detail, pairCase{Pkg: p.Name, A: atomNames(s1.atoms), B: atomNames(s2.atoms), Opt: opt})
				}
			}
		}
	})
}

func c31StatesOf(sp *core.Space) [][]*core.Atom {
	out := make([][]*core.Atom, len(sp.States))
	for i, st := range sp.States {
		out[i] = sp.SeqAtoms(st)
	}
	return out
}

func runC31(c *core.Ctx) {
	c.Level = "model_checking"
	c19VerifDir = c.VerifDir
	names := []string{"vtus", "vtuw", "voccs"}
	if c.Thorough() {
		names = nil
		for _, p := range core.Packages() {
			names = append(names, p.Name)
		}
	}
	c.Rule = "all ordered pairs (t1, t2) of explored states with <= 1 atom (every leaf type/value, leaf-list incl. both orders, list entry of every key type, nested leaves and containers of entries, presence container, choice cases, augmented nodes) plus all pairs of states with <= 2 atoms over the ordered-by-user list atoms (quick: simple-union packages only), on " + strings.Join(names, ", ") + "; thorough adds (<= 2 atoms) x (<= 1 atom) in both roles over the focused alphabet on vtus, vtuw, voccs, vocco (variants plain/none and unknown/IgnoreExtraFields only); per pair the documents refjson(Model(t2)) with bare names and with RFC 7951 module prefixes, and one document per JSON object position with an unknown member added (scalar; thorough also object-valued), each x {no option, IgnoreExtraFields}; every case is unmarshalled by the generated Unmarshal into a fresh build of t1 and the observed Model is compared with the reference merge; plus, with a LIST ENTRY of t1 as the target of Unmarshal: every keyed entry x every ordered pair of values of one leaf / leaf-list below it, document = ygot's rendering of the entry with the new value, plain / with an unknown scalar member / with an unknown object member, each x {no option, IgnoreExtraFields}; plus t1 trees whose equal leaves share storage; non-trivial = both trees non-empty and the pair judged"
	c.R.Assume("builder, observer and refjson are correct; the document alone is acceptable (checked on an empty root first: otherwise the pair belongs to C01 / C18 and is excluded, counted)")
	c.R.Note("not_judged", []string{
		"documents that mention an unkeyed list (no key to merge by; ygot appends)",
		"documents whose ordered-by-user list names a key the existing list already holds (documented in yreflect.AppendIntoOrderedMap: such lists are unmarshalled as a whole) - disjoint keys are judged: existing entries first, new ones appended in document order",
		"the state of the tree after a rejected document (the statement only asks for an error)",
		"documents that Unmarshal rejects or does not reproduce on an empty root (wrapper-union binary member, see C01 known finding)",
	})
	for _, n := range names {
		if c.Expired() {
			break
		}
		p := core.PkgByName(n)
		rs, err := c19Schema(p)
		if err != nil {
			c.R.Violation("reference-error:schema", err.Error(), nil)
			return
		}
		one := core.Explore(p, p.Atoms(), 1)
		c.R.Add("states", int64(len(one.States)))
		all := c31StatesOf(one)
		c31Pairs(c, p, rs, all, all, "k1", c.Thorough(), false)
		c.R.Note("space_"+p.Name, map[string]interface{}{"atoms": len(p.Atoms()), "k1_states": len(all)})
		var ord []*core.Atom
		for _, a := range p.Atoms() {
			if a.Ord && a.Kind != "unkeyed" {
				ord = append(ord, a)
			}
		}
		if len(ord) > 0 && (c.Thorough() || !p.Wrapper) { // quick: the ordered-list pairs once per schema (vtus, voccs)
			os := core.Explore(p, ord, 2)
			c.R.Add("states", int64(len(os.States)))
			oa := c31StatesOf(os)
			c31Pairs(c, p, rs, oa, oa, "ord", false, false)
		}
		if c.Thorough() && (p.Name == "vtus" || p.Name == "vtuw" || p.Name == "voccs" || p.Name == "vocco") {
			foc := core.FocusAtoms(p.Atoms())
			two := core.Explore(p, foc, 2)
			f1 := core.Explore(p, foc, 1)
			c.R.Add("states", int64(len(two.States)))
			c31Pairs(c, p, rs, c31StatesOf(two), c31StatesOf(f1), "k2xk1", false, true)
			c31Pairs(c, p, rs, c31StatesOf(f1), c31StatesOf(two), "k1xk2", false, true)
		}
		if len(all) > 3 {
			c.R.Sample(map[string]interface{}{"pkg": p.Name, "t1": atomNames(all[len(all)/2]), "t2": atomNames(all[len(all)/3])})
		}
		// Unmarshal into a list entry as the target (c31_entry.go)
		runC31EntryTargets(c, p)
	}
	// shared storage in t1: every t1 of <= 2 leaf / leaf-list atoms (focused alphabet, plus all leaf-list atoms)
	// in which equal values share one variable / one slice x every single-atom document over the same atoms
	shareNames := []string{"vocus", "vtus"}
	if c.Thorough() {
		shareNames = names
	}
	for _, n := range shareNames {
		if c.Expired() {
			break
		}
		p := core.PkgByName(n)
		rs, err := c19Schema(p)
		if err != nil {
			c.R.Violation("reference-error:schema", err.Error(), nil)
			return
		}
		var al []*core.Atom
		for _, a := range p.Atoms() {
			if (a.Kind == "leaflist" && len(a.Val.Elems()) <= 3) || (a.Kind == "leaf" && a.Focus) {
				al = append(al, a)
			}
		}
		two := core.Explore(p, al, 2)
		one := core.Explore(p, al, 1)
		c.R.Add("states", int64(len(two.States)))
		c31Pairs(c, p, rs, c31StatesOf(two), c31StatesOf(one), "shared", false, true)
	}
}

func replayC31(c *core.Ctx, raw []byte) (bool, string) {
	c19VerifDir = c.VerifDir
	if v, d, ok := replayC31Entry(raw); ok {
		return v, d
	}
	var pc pairCase
	if err := json.Unmarshal(raw, &pc); err != nil || pc.Pkg == "" {
		return false, "bad case"
	}
	p := core.PkgByName(pc.Pkg)
	if p == nil {
		return false, "unknown package"
	}
	aa, ok := p.AtomsByName(pc.A)
	ba, ok2 := p.AtomsByName(pc.B)
	if !ok || !ok2 {
		return false, "unknown atoms"
	}
	rs, err := c19Schema(p)
	if err != nil {
		return false, err.Error()
	}
	s1, err := c31Prepare(p, rs, aa, false, false)
	if err != nil {
		return false, err.Error()
	}
	s2, err := c31Prepare(p, rs, ba, true, true)
	if err != nil {
		return false, err.Error()
	}
	if s2.base != "" || len(s2.m.Unkeyed) > 0 {
		return false, "excluded: " + s2.base
	}
	want, excl := c31Merge(s1.m, s2.m)
	if excl != "" {
		return false, excl
	}
	var names []string
	for _, d := range s2.docs {
		for _, ignore := range []bool{false, true} {
			names = append(names, c31VariantName(d, ignore))
			if vn := c31VariantName(d, ignore); vn == pc.Opt || vn+"+shared" == pc.Opt {
				clause, _, detail, _ := c31EvalShare(p, s1, s2, want, want.Canon(), d, ignore, strings.HasSuffix(pc.Opt, "+shared"))
				return clause != "", clause + " " + detail
			}
		}
	}
	sort.Strings(names)
	return false, "unknown variant " + pc.Opt + " (have " + strings.Join(names, ",") + ")"
}
