package props

import (
	"encoding/json"
	"fmt"
	"reflect"
	"strings"

	gpb "github.com/openconfig/gnmi/proto/gnmi"
	"github.com/openconfig/goyang/pkg/yang"
	"github.com/openconfig/ygot/ytypes"
	"github.com/openconfig/ygot/zzverif/core"
	"google.golang.org/protobuf/proto"
)

func init() { core.RegisterProp(&core.Prop{ID: "C10", Run: runC10, Replay: replayC10}) }

var c10Encs = []string{"scalar", "json_ietf"}

func c10Value(a *core.Atom, enc string) *gpb.TypedValue {
	if enc == "json_ietf" {
		return core.RefJSONIETF(a.Val)
	}
	return core.RefTypedValue(a.Val)
}

func safeSet(p *core.Pkg, t interface{}, g *gpb.Path, tv *gpb.TypedValue, opts ...ytypes.SetNodeOpt) (err error) {
	defer recoverTo(&err)
	return ytypes.SetNode(p.RootSchema(), t, g, tv, opts...)
}

// c10Check: from the state built by atoms, set the leaf named by atom a through SetNode and compare
// with the reference transition (the builder applied to the same state).
func c10Check(p *core.Pkg, atoms []*core.Atom, a *core.Atom, enc string) (string, string) {
	t, err := p.Build(atoms)
	if err != nil {
		return "", ""
	}
	var setOpts []ytypes.SetNodeOpt
	if strings.HasSuffix(enc, "+tolerate") {
		// TolerateJSONInconsistencies widens what is accepted; what a type-correct payload stores must not change
		enc = strings.TrimSuffix(enc, "+tolerate")
		setOpts = append(setOpts, &ytypes.TolerateJSONInconsistencies{})
	}
	if strings.HasSuffix(enc, "+shared") {
		// equal leaves share one variable (user code filling entries from a template): see core.ShareLeafPointers
		enc = strings.TrimSuffix(enc, "+shared")
		if core.ShareLeafPointers(t) == 0 {
			return "", "excluded-nothing-to-share"
		}
	}
	exp, err := p.Build(append(append([]*core.Atom{}, atoms...), a))
	if err != nil {
		return "", "excluded-choice-conflict"
	}
	before := p.Observe(t)
	if len(before.Unkeyed) > 0 {
		return "", "excluded-unkeyed"
	}
	want := p.Observe(exp)
	g := a.Path.GNMI()
	tv := c10Value(a, enc)
	g0, tv0 := proto.Clone(g), proto.Clone(tv)
	if err := safeSet(p, t, g, tv, append([]ytypes.SetNodeOpt{&ytypes.InitMissingElements{}}, setOpts...)...); err != nil {
		if len(err.Error()) >= 5 && err.Error()[:5] == "PANIC" {
			return "set-panic:", err.Error()
		}
		// the property speaks about successful sets only; a failed set must leave the tree alone
		if got := p.Observe(t); got.LeafCanon(true) != before.LeafCanon(true) {
			return "failed-set-changed-tree:", fmt.Sprintf("SetNode(%s) failed (%v) but changed the tree: %s", a.Name, err, core.DiffCanon(before.LeafCanon(true), got.LeafCanon(true)))
		}
		return "", "set-rejected"
	}
	_, _ = g0, tv0
	got := p.Observe(t)
	if got.Canon() != want.Canon() {
		return "frame:", fmt.Sprintf("after SetNode(%s, %s): %s", a.Path, enc, core.DiffCanon(want.Canon(), got.Canon()))
	}
	nodes, err := safeGet(p, t, g)
	if err != nil {
		return "get-after-set-error:", fmt.Sprintf("GetNode(%s) after successful SetNode: %v", a.Path, err)
	}
	if len(nodes) != 1 {
		return "get-after-set-count:", fmt.Sprintf("GetNode(%s) returned %d nodes", a.Path, len(nodes))
	}
	if gv := p.FromGo(reflect.ValueOf(nodes[0].Data)); gv != a.Val && !(a.Val == core.LL() && gv == core.NoValue) {
		return "get-after-set-value:", fmt.Sprintf("GetNode(%s) holds %q, set %q", a.Path, gv, a.Val)
	}
	return "", "ok"
}

type c10Case struct {
	Pkg   string   `json:"pkg"`
	Atoms []string `json:"atoms"`
	Set   string   `json:"set"`
	Enc   string   `json:"enc"`
}

func runC10(c *core.Ctx) {
	c.Level = "model_checking"
	k := kFor(c, 1, 2)
	c.Rule = fmt.Sprintf("transition oracle: from every explicit-state search state (k<=%d full alphabet; plus k<=2 focused) every leaf / leaf-list atom (every leaf type and value of the domain, every list key type, present and absent entries) is written with SetNode(InitMissingElements) as scalar TypedValue and as JSON_IETF on a fresh real tree; on success the whole observed Model must equal the reference transition (builder applied to the same state: the leaf, plus key leaves of entries created along the path, nothing else) and GetNode must return exactly one node holding the value; plus histories of 3 sets from the empty root; non-trivial = successful set that changes the state", k)
	c.R.Assume("reference encodings of values (core/refenc.go) are type-correct payloads; failed sets are outside the statement (counted, and required to leave the tree unchanged)")
	for _, p := range core.Packages() {
		if c.Expired() {
			break
		}
		var sets []*core.Atom
		for _, a := range p.Atoms() {
			if a.Kind == "leaf" || a.Kind == "leaflist" {
				sets = append(sets, a)
			}
		}
		sp := core.Explore(p, p.Atoms(), k)
		states := sp.States
		if !c.Thorough() && (p.Name == "vtuw" || p.Name == "voccs") {
			foc := core.FocusAtoms(p.Atoms())
			sp2 := core.Explore(p, foc, 2)
			for _, st := range sp2.States {
				if len(st.Seq) == 2 {
					ns := []uint16{uint16(foc[st.Seq[0]].ID), uint16(foc[st.Seq[1]].ID)}
					states = append(states, core.State{Seq: ns, Key: st.Key})
				}
			}
		}
		c.R.Add("states", int64(len(states)))
		c.R.Note("space_"+p.Name, map[string]interface{}{"states": len(states), "set_operations": len(sets) * 2})
		core.ParallelFor(len(states), func(i int) {
			if i%128 == 0 && c.Expired() {
				return
			}
			st := states[i]
			atoms := sp.SeqAtoms(st)
			cands := sets
			if len(st.Seq) >= 2 && !c.Thorough() {
				cands = core.FocusAtoms(sets)
			}
			for _, a := range cands {
				encs := c10Encs
				if a.Entry != nil && a.Entry.Type != nil && (a.Entry.Type.Kind == yang.Yunion || a.Entry.Type.Kind == yang.Yenum || a.Entry.Type.Kind == yang.Yidentityref) && len(st.Seq) <= 1 {
					// leaves whose decoding depends on the encoding mode (enum names, union member resolution): also with the tolerant mode
					encs = []string{"scalar", "json_ietf", "scalar+tolerate", "json_ietf+tolerate"}
				}
				for _, enc := range encs {
					c.R.Add("evaluations", 1)
					c.R.Add("transitions", 1)
					sig, detail := c10Check(p, atoms, a, enc)
					if sig != "" {
						min, msig, md := minimise(atoms, func(x []*core.Atom) (string, string) { return c10Check(p, x, a, enc) })
						if msig == "" || clauseOf(msig) == "unstable" {
							min, msig, md = atoms, sig, detail
						}
						c.R.Violation(sigFor(clauseOf(msig)+"@"+enc, min)+" set "+shapeName(a), md, c10Case{Pkg: p.Name, Atoms: atomNames(min), Set: a.Name, Enc: enc})
						c.R.Outcome("violation")
					} else {
						c.R.Outcome(detail)
						if detail == "ok" {
							c.R.NonTrivial(p.Name + string(st.Key[:]) + a.Name)
						}
					}
				}
			}
		})
		// shared leaf variables: every k<=2 focused state in which two leaves of one type hold equal values,
		// the leaves made to share one variable; every leaf of the state is overwritten with every OTHER value
		{
			foc := core.FocusAtoms(p.Atoms())
			sp2 := core.Explore(p, foc, 2)
			c.R.Add("states", int64(len(sp2.States)))
			core.ParallelFor(len(sp2.States), func(i int) {
				st := sp2.States[i]
				atoms := sp2.SeqAtoms(st)
				for _, in := range atoms {
					if in.Kind != "leaf" {
						continue
					}
					for _, a := range sets {
						if a.Kind != "leaf" || a.Val == in.Val || a.Path.String() != in.Path.String() {
							continue
						}
						for _, enc := range c10Encs {
							c.R.Add("evaluations", 1)
							c.R.Add("transitions", 1)
							sig, detail := c10Check(p, atoms, a, enc+"+shared")
							if sig != "" {
								c.R.Violation(sigFor(clauseOf(sig)+"@"+enc+"+shared", atoms)+" set "+shapeName(a), detail, c10Case{Pkg: p.Name, Atoms: atomNames(atoms), Set: a.Name, Enc: enc + "+shared"})
								c.R.Outcome("violation")
							} else {
								c.R.Outcome("shared:" + detail)
							}
						}
					}
				}
			})
		}
		// histories: three successive SetNode calls from the empty root, compared with the builder after each
		foc := core.FocusAtoms(sets)
		n := len(foc)
		step := 1
		if !c.Thorough() {
			step = 4
		}
		core.ParallelFor(n, func(i int) {
			for j := 0; j < n; j++ {
				for l := (i + j) % step; l < n; l += step {
					c.R.Add("evaluations", 1)
					c.R.Add("traces_validated_against_impl", 1)
					seq := []*core.Atom{foc[i], foc[j], foc[l]}
					if sig, d := c10History(p, seq); sig != "" {
						c.R.Violation(sig+sigFor("", seq), d, map[string]interface{}{"pkg": p.Name, "history": atomNames(seq)})
					}
				}
			}
		})
		if len(states) > 3 {
			c.R.Sample(c10Case{Pkg: p.Name, Atoms: sp.SeqNames(states[len(states)/2]), Set: sets[len(sets)/3].Name, Enc: "scalar"})
		}
	}
}

func c10History(p *core.Pkg, seq []*core.Atom) (string, string) {
	t := p.NewRoot()
	var done []*core.Atom
	for i, a := range seq {
		exp, err := p.Build(append(append([]*core.Atom{}, done...), a))
		if err != nil {
			return "", ""
		}
		enc := c10Encs[i%2]
		if err := safeSet(p, t, a.Path.GNMI(), c10Value(a, enc), &ytypes.InitMissingElements{}); err != nil {
			if len(err.Error()) >= 5 && err.Error()[:5] == "PANIC" {
				return "history-set-panic:", err.Error()
			}
			return "", ""
		}
		done = append(done, a)
		if got, want := p.Observe(t).Canon(), p.Observe(exp).Canon(); got != want {
			return "history-frame:", fmt.Sprintf("after set #%d (%s): %s", i+1, a.Name, core.DiffCanon(want, got))
		}
	}
	return "", ""
}

func replayC10(c *core.Ctx, raw []byte) (bool, string) {
	var rc c10Case
	if err := json.Unmarshal(raw, &rc); err != nil || rc.Set == "" {
		return false, "history replays are re-run by the explorer only"
	}
	p := core.PkgByName(rc.Pkg)
	if p == nil {
		return false, "unknown package"
	}
	atoms, ok := p.AtomsByName(rc.Atoms)
	set, ok2 := p.AtomsByName([]string{rc.Set})
	if !ok || !ok2 {
		return false, "unknown atoms"
	}
	sig, d := c10Check(p, atoms, set[0], rc.Enc)
	return sig != "", sig + " " + d
}
