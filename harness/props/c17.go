package props

// C17 - Enumeration and identity names map bijectively.
//
// Enumerated: every generated enumeration / identityref Go type of every corpus package (main corpus
// vt/voc and the auxiliary enum-naming corpus ven, venx-*, repo testdata enum modules under the
// enum-naming generator flag combinations) x every *position* at which the type occurs in the
// generated structs (leaf, leaf-list, union member, union leaf-list member, list key, union list key;
// found by a reflection walk over all struct fields) x every defined value, the value 0, and the
// undefined representatives {-1, max+1, MinInt64, MaxInt64}.
//
// Oracle (each clause is a signature prefix):
//   type level : names unique within the type; 0 is not a defined value; EnumName / EncodeTypedValue
//                give the name of every defined value and an error for undefined ones
//   schema     : the (name, module) sets of the Go types at a position equal the enumeration /
//                identity definitions goyang yields for the same schema node (compiled here, directly)
//   defined v  : Marshal7951 (4 configs), TogNMINotifications, EncodeTypedValue emit the name (bare or
//                module:name) at the position; decoding the emitted document gives v back; decoding the
//                name - bare and module-prefixed - through the generated Unmarshal and through
//                ytypes.SetNode (string_val) gives v back (each decode repeated: the implementation
//                ranges over Go maps, so differing answers are reported under the same clause)
//   zero       : nothing is emitted for the position
//   undefined  : every renderer returns an error
//   generator  : a corpus package the generator accepted but whose Go code does not compile

import (
	"encoding/json"
	"fmt"
	"math"
	"os"
	"path/filepath"
	"reflect"
	"sort"
	"strings"
	"sync"

	gpb "github.com/openconfig/gnmi/proto/gnmi"
	"github.com/openconfig/goyang/pkg/yang"
	"github.com/openconfig/ygot/ygot"
	"github.com/openconfig/ygot/ytypes"
	"github.com/openconfig/ygot/zzverif/core"
)

func init() {
	core.RegisterProp(&core.Prop{ID: "C17", Run: runC17, Replay: replayC17})
}

// ---- positions ------------------------------------------------------------------------------

type c17Link struct {
	Field    int
	Name     string
	Kind     core.FieldKind
	Tuple    []core.Value
	KeyNames []string
	Names    []string // data-tree names contributed by this link (first path alternative)
}

type c17Pos struct {
	P       *core.Pkg
	Chain   []c17Link
	Parent  reflect.Type // struct type holding the target field
	Field   int
	FName   string
	Role    string // leaf | leaflist | union | union-leaflist | key | union-key
	T       reflect.Type
	Alts    [][]string
	KeyName string
	ID      string
}

func (pos *c17Pos) isLL() bool  { return strings.HasSuffix(pos.Role, "leaflist") }
func (pos *c17Pos) isKey() bool { return strings.HasSuffix(pos.Role, "key") }

// names returns the data-tree names of the position for path alternative alt.
func (pos *c17Pos) names(alt []string) []string {
	var out []string
	for _, l := range pos.Chain {
		out = append(out, l.Names...)
	}
	return append(out, alt...)
}

type c17Walker struct {
	p       *core.Pkg
	out     []*c17Pos
	skipped map[string]int
}

func c17KeyField(et reflect.Type, kn string) (int, bool) {
	for j := 0; j < et.NumField(); j++ {
		for _, a := range core.TagPaths(et.Field(j)) {
			if len(a) == 1 && a[0] == kn {
				return j, true
			}
		}
	}
	return 0, false
}

// enumTypesOf returns the generated enum types a field of (element) type ft can hold.
func (w *c17Walker) enumTypesOf(parent reflect.Type, ft reflect.Type) []reflect.Type {
	if core.IsEnumType(ft) {
		return []reflect.Type{ft}
	}
	if ft.Kind() != reflect.Interface {
		return nil
	}
	var out []reflect.Type
	for _, t := range w.p.EnumTypes() {
		if t.Implements(ft) {
			out = append(out, t)
		}
	}
	if len(out) > 0 {
		return out
	}
	// wrapper unions: membership is decided by the generated To_<Union> helper
	m := reflect.New(parent).MethodByName("To_" + ft.Name())
	if !m.IsValid() {
		return nil
	}
	for _, t := range w.p.EnumTypes() {
		ev := reflect.New(t).Elem()
		ev.SetInt(1)
		func() {
			defer func() { recover() }()
			r := m.Call([]reflect.Value{ev})
			if len(r) == 2 && r[1].IsNil() && !r[0].IsNil() {
				out = append(out, t)
			}
		}()
	}
	return out
}

func (w *c17Walker) addLeaf(parent reflect.Type, i int, chain []c17Link, key string) {
	f := parent.Field(i)
	ft := f.Type
	role := "leaf"
	if core.KindOfField(ft) == core.FLeafList {
		ft = ft.Elem()
		role = "leaflist"
	}
	if ft.Kind() == reflect.Ptr {
		return
	}
	ts := w.enumTypesOf(parent, ft)
	if len(ts) == 0 {
		return
	}
	if ft.Kind() == reflect.Interface {
		role = "union-" + role
		if role == "union-leaf" {
			role = "union"
		}
	}
	if key != "" {
		if strings.HasSuffix(role, "leaflist") {
			return
		}
		role = strings.Replace(role, "leaf", "key", 1)
		if role == "union" {
			role = "union-key"
		}
	}
	for _, t := range ts {
		pos := &c17Pos{P: w.p, Chain: append([]c17Link{}, chain...), Parent: parent, Field: i, FName: f.Name, Role: role, T: t, Alts: core.TagPaths(f), KeyName: key}
		id := ""
		for _, l := range chain {
			id += "/" + l.Name
		}
		pos.ID = id + "/" + f.Name + "#" + role + "#" + t.Name()
		w.out = append(w.out, pos)
	}
}

func (w *c17Walker) walk(st reflect.Type, se *yang.Entry, chain []c17Link, depth int) {
	if depth > 6 {
		w.skipped["depth"]++
		return
	}
	for i := 0; i < st.NumField(); i++ {
		f := st.Field(i)
		alts := core.TagPaths(f)
		if alts == nil {
			continue
		}
		kind := core.KindOfField(f.Type)
		link := c17Link{Field: i, Name: f.Name, Kind: kind, Names: alts[0]}
		switch kind {
		case core.FLeaf, core.FLeafList:
			w.addLeaf(st, i, chain, "")
		case core.FContainer:
			ce := w.p.EntryFor(f.Type)
			if ce == nil {
				ce, _ = core.FindChild(se, alts[0])
			}
			w.walk(f.Type.Elem(), ce, append(append([]c17Link{}, chain...), link), depth+1)
		case core.FKeyedList, core.FOrderedList:
			var et reflect.Type
			if kind == core.FKeyedList {
				et = f.Type.Elem()
			} else {
				m, ok := f.Type.MethodByName("Values")
				if !ok {
					w.skipped["ordered-without-Values"]++
					continue
				}
				et = m.Type.Out(0).Elem()
			}
			ee := w.p.EntryFor(et)
			keyNames := w.p.ListKeyNames(et)
			if ee == nil || len(keyNames) == 0 {
				w.skipped["list-without-schema"]++
				continue
			}
			ok := true
			var tuple []core.Value
			var kfs []int
			for _, kn := range keyNames {
				j, found := c17KeyField(et.Elem(), kn)
				if !found {
					ok = false
					break
				}
				tp := core.TagPaths(et.Elem().Field(j))
				ke, _ := core.FindChild(ee, tp[len(tp)-1])
				var pick core.Value
				for _, dv := range w.p.LeafDomain(et.Elem().Field(j).Type, ke) {
					if dv != "str:" && dv != core.NoValue {
						if dv.Kind() == "enum" {
							// a defined value whose Go number is 0 cannot serve as a key
							if ts := w.enumTypesOf(et.Elem(), et.Elem().Field(j).Type); len(ts) == 1 {
								if n, ok := w.p.EnumNumber(ts[0], dv.Payload()); ok && n == 0 {
									continue
								}
							}
						}
						pick = dv
						break
					}
				}
				if pick == core.NoValue {
					ok = false
					break
				}
				tuple = append(tuple, pick)
				kfs = append(kfs, j)
			}
			if !ok {
				w.skipped["list-without-key-domain"]++
				continue
			}
			link.Tuple, link.KeyNames = tuple, keyNames
			nchain := append(append([]c17Link{}, chain...), link)
			if kind == core.FKeyedList {
				for ki, j := range kfs {
					w.addLeaf(et.Elem(), j, nchain, keyNames[ki])
				}
			} else {
				for _, j := range kfs {
					if len(w.enumTypesOf(et.Elem(), et.Elem().Field(j).Type)) > 0 {
						w.skipped["ordered-list-enum-key-positions"]++
					}
				}
			}
			// non-key content of the entry
			sub := &c17Walker{p: w.p, skipped: w.skipped}
			sub.walk(et.Elem(), ee, nchain, depth+1)
			for _, pos := range sub.out {
				isKey := false
				if len(pos.Chain) == len(nchain) {
					for _, j := range kfs {
						if pos.Field == j {
							isKey = true
						}
					}
				}
				if !isKey {
					w.out = append(w.out, pos)
				}
			}
		case core.FUnkeyedList:
			et := f.Type.Elem()
			w.walk(et.Elem(), w.p.EntryFor(et), append(append([]c17Link{}, chain...), link), depth+1)
		}
	}
}

var (
	c17PosMu    sync.Mutex
	c17PosCache = map[string][]*c17Pos{}
	c17PosSkip  = map[string]map[string]int{}
)

func c17Positions(p *core.Pkg) ([]*c17Pos, map[string]int) {
	c17PosMu.Lock()
	defer c17PosMu.Unlock()
	if ps, ok := c17PosCache[p.Name]; ok {
		return ps, c17PosSkip[p.Name]
	}
	p.Schema()
	w := &c17Walker{p: p, skipped: map[string]int{}}
	w.walk(p.RootType, p.RootSchema(), nil, 0)
	c17PosCache[p.Name], c17PosSkip[p.Name] = w.out, w.skipped
	return w.out, w.skipped
}

// ---- building, setting, reading ---------------------------------------------------------------

type c17Inst struct {
	root    ygot.GoStruct
	parent  reflect.Value // pointer to the struct holding the target field
	listMap reflect.Value // key roles: the map holding parent
	mapKey  reflect.Value
}

func c17Build(pos *c17Pos) (in *c17Inst, err error) {
	defer recoverTo(&err)
	p := pos.P
	in = &c17Inst{root: p.NewRoot()}
	cur := reflect.ValueOf(in.root)
	for _, l := range pos.Chain {
		f := cur.Elem().Field(l.Field)
		switch l.Kind {
		case core.FContainer:
			if f.IsNil() {
				f.Set(reflect.New(f.Type().Elem()))
			}
			cur = f
		case core.FKeyedList:
			et := f.Type().Elem()
			entry := reflect.New(et.Elem())
			if err := p.SetKeyLeaves(entry, l.KeyNames, l.Tuple); err != nil {
				return nil, err
			}
			k, err := p.MapKey(f.Type().Key(), entry, l.KeyNames, l.Tuple)
			if err != nil {
				return nil, err
			}
			f.Set(reflect.MakeMap(f.Type()))
			f.SetMapIndex(k, entry)
			in.listMap, in.mapKey = f, k
			cur = entry
		case core.FOrderedList:
			f.Set(reflect.New(f.Type().Elem()))
			et := f.MethodByName("Get").Type().Out(0)
			entry := reflect.New(et.Elem())
			if err := p.SetKeyLeaves(entry, l.KeyNames, l.Tuple); err != nil {
				return nil, err
			}
			if out := f.MethodByName("Append").Call([]reflect.Value{entry}); !out[0].IsNil() {
				return nil, fmt.Errorf("generated Append failed: %v", out[0].Interface())
			}
			cur = entry
		case core.FUnkeyedList:
			el := reflect.New(f.Type().Elem().Elem())
			f.Set(reflect.Append(f, el))
			cur = el
		}
	}
	in.parent = cur
	return in, nil
}

func (in *c17Inst) set(pos *c17Pos, n int64) (err error) {
	defer recoverTo(&err)
	f := in.parent.Elem().Field(pos.Field)
	ev := reflect.New(pos.T).Elem()
	ev.SetInt(n)
	elemT := f.Type()
	if pos.isLL() {
		elemT = elemT.Elem()
	}
	v := ev
	if elemT.Kind() == reflect.Interface && !pos.T.Implements(elemT) {
		m := in.parent.MethodByName("To_" + elemT.Name())
		if !m.IsValid() {
			return fmt.Errorf("no To_%s", elemT.Name())
		}
		out := m.Call([]reflect.Value{ev})
		if !out[1].IsNil() {
			return fmt.Errorf("To_%s(%s(%d)): %v", elemT.Name(), pos.T.Name(), n, out[1].Interface())
		}
		v = out[0]
	}
	if pos.isLL() {
		s := reflect.MakeSlice(f.Type(), 1, 1)
		s.Index(0).Set(v)
		f.Set(s)
	} else {
		f.Set(v)
	}
	if pos.isKey() {
		m := in.listMap
		m.SetMapIndex(in.mapKey, reflect.Value{})
		kt := m.Type().Key()
		nk := reflect.New(kt).Elem()
		if kt.Kind() == reflect.Struct {
			nk.Set(in.mapKey)
			nk.FieldByName(pos.FName).Set(f)
		} else {
			nk.Set(f)
		}
		m.SetMapIndex(nk, in.parent)
		in.mapKey = nk
	}
	return nil
}

// c17Unwrap reduces a field value to the enum value it holds.
func c17Unwrap(v reflect.Value) (reflect.Type, int64, string) {
	for i := 0; i < 8; i++ {
		if !v.IsValid() {
			return nil, 0, "invalid"
		}
		switch v.Kind() {
		case reflect.Interface, reflect.Ptr:
			if v.IsNil() {
				return nil, 0, "unset"
			}
			v = v.Elem()
		case reflect.Struct:
			if v.NumField() != 1 {
				return nil, 0, "struct " + v.Type().Name()
			}
			v = v.Field(0)
		case reflect.Slice:
			if v.Len() != 1 {
				return nil, 0, fmt.Sprintf("%d elements", v.Len())
			}
			v = v.Index(0)
		default:
			if core.IsEnumType(v.Type()) {
				if v.Int() == 0 {
					return v.Type(), 0, "unset"
				}
				return v.Type(), v.Int(), ""
			}
			return nil, 0, fmt.Sprintf("%s(%v)", v.Type().Name(), v.Interface())
		}
	}
	return nil, 0, "too deep"
}

// c17Read navigates to the position in a decoded tree (lists must hold exactly one entry) and
// describes what it holds: "<Type>(<n>)" for an enum value.
func c17Read(pos *c17Pos, root ygot.GoStruct) (got string) {
	defer func() {
		if r := recover(); r != nil {
			got = fmt.Sprintf("PANIC while reading: %v", r)
		}
	}()
	cur := reflect.ValueOf(root)
	var lastMap reflect.Value
	for _, l := range pos.Chain {
		if cur.IsNil() {
			return "absent"
		}
		f := cur.Elem().Field(l.Field)
		switch l.Kind {
		case core.FContainer:
			cur = f
		case core.FKeyedList:
			if f.Len() != 1 {
				return fmt.Sprintf("list %s has %d entries", l.Name, f.Len())
			}
			it := f.MapRange()
			it.Next()
			cur, lastMap = it.Value(), f
		case core.FOrderedList:
			if f.IsNil() {
				return "absent"
			}
			vs := f.MethodByName("Values").Call(nil)[0]
			if vs.Len() != 1 {
				return fmt.Sprintf("list %s has %d entries", l.Name, vs.Len())
			}
			cur = vs.Index(0)
		case core.FUnkeyedList:
			if f.Len() != 1 {
				return fmt.Sprintf("list %s has %d entries", l.Name, f.Len())
			}
			cur = f.Index(0)
		}
	}
	if cur.IsNil() {
		return "absent"
	}
	t, n, why := c17Unwrap(cur.Elem().Field(pos.Field))
	if why != "" {
		return why
	}
	got = fmt.Sprintf("%s(%d)", t.Name(), n)
	if pos.isKey() && lastMap.IsValid() {
		it := lastMap.MapRange()
		it.Next()
		k := it.Key()
		if k.Kind() == reflect.Struct {
			k = k.FieldByName(pos.FName)
		}
		kt, kn, kwhy := c17Unwrap(k)
		ks := kwhy
		if kwhy == "" {
			ks = fmt.Sprintf("%s(%d)", kt.Name(), kn)
		}
		if ks != got {
			return fmt.Sprintf("key leaf %s but map key %s", got, ks)
		}
	}
	return got
}

func c17Want(pos *c17Pos, n int64) string { return fmt.Sprintf("%s(%d)", pos.T.Name(), n) }

// ---- renderers and decoders (all panics recovered) ------------------------------------------

// c17RoundTripRuns: how often the decode of an emitted document is executed (the bare-name decode,
// which is the same input for plain enumerations, is executed `trials` times).
const c17RoundTripRuns = 2

var c17JSONOpts = []string{"nil", "append", "idref", "append+idref"}

func c17Marshal(root ygot.GoStruct, opt string) (out []byte, err error) {
	defer recoverTo(&err)
	switch opt {
	case "nil":
		return ygot.Marshal7951(root)
	case "append":
		return ygot.Marshal7951(root, &ygot.RFC7951JSONConfig{AppendModuleName: true})
	case "idref":
		return ygot.Marshal7951(root, &ygot.RFC7951JSONConfig{PrependModuleNameIdentityref: true})
	}
	return ygot.Marshal7951(root, &ygot.RFC7951JSONConfig{AppendModuleName: true, PrependModuleNameIdentityref: true})
}

func c17Notifs(root ygot.GoStruct) (out []*gpb.Notification, err error) {
	defer recoverTo(&err)
	return ygot.TogNMINotifications(root, 42, ygot.GNMINotificationsConfig{UsePathElem: true})
}

func c17NotifsElement(root ygot.GoStruct) (out []*gpb.Notification, err error) {
	defer recoverTo(&err)
	return ygot.TogNMINotifications(root, 42, ygot.GNMINotificationsConfig{UsePathElem: false})
}

func c17Encode(v interface{}) (tv *gpb.TypedValue, err error) {
	defer recoverTo(&err)
	return ygot.EncodeTypedValue(v, gpb.Encoding_JSON_IETF)
}

func c17EnumName(t reflect.Type, n int64) (s string, err error) {
	defer recoverTo(&err)
	ev := reflect.New(t).Elem()
	ev.SetInt(n)
	return ygot.EnumName(ev.Interface().(ygot.GoEnum))
}

func c17SetNode(p *core.Pkg, root ygot.GoStruct, path *gpb.Path, tv *gpb.TypedValue) (err error) {
	defer recoverTo(&err)
	return ytypes.SetNode(p.Schema().RootSchema(), root, path, tv, &ytypes.InitMissingElements{})
}

func c17JSONStep(cur interface{}, n string) (map[string]interface{}, string, bool) {
	for {
		arr, ok := cur.([]interface{})
		if !ok {
			break
		}
		if len(arr) == 0 {
			return nil, "", false
		}
		cur = arr[0]
	}
	obj, ok := cur.(map[string]interface{})
	if !ok {
		return nil, "", false
	}
	for _, k := range core.SortedKeys(obj) {
		if k == n || strings.HasSuffix(k, ":"+n) {
			return obj, k, true
		}
	}
	return nil, "", false
}

func c17JSONFind(doc interface{}, names []string) (interface{}, bool) {
	cur := doc
	for _, n := range names {
		obj, k, ok := c17JSONStep(cur, n)
		if !ok {
			return nil, false
		}
		cur = obj[k]
	}
	return cur, true
}

func c17JSONSet(doc interface{}, names []string, val interface{}) bool {
	cur := doc
	for i, n := range names {
		obj, k, ok := c17JSONStep(cur, n)
		if !ok {
			return false
		}
		if i == len(names)-1 {
			obj[k] = val
			return true
		}
		cur = obj[k]
	}
	return false
}

// c17Strings flattens a rendered JSON value / TypedValue into the strings it carries.
func c17JSONStrings(v interface{}) ([]string, bool) {
	switch x := v.(type) {
	case string:
		return []string{x}, true
	case []interface{}:
		var out []string
		for _, e := range x {
			s, ok := e.(string)
			if !ok {
				return nil, false
			}
			out = append(out, s)
		}
		return out, true
	}
	return nil, false
}

func c17TVStrings(tv *gpb.TypedValue) ([]string, bool) {
	switch x := tv.GetValue().(type) {
	case *gpb.TypedValue_StringVal:
		return []string{x.StringVal}, true
	case *gpb.TypedValue_LeaflistVal:
		var out []string
		for _, e := range x.LeaflistVal.GetElement() {
			s, ok := e.GetValue().(*gpb.TypedValue_StringVal)
			if !ok {
				return nil, false
			}
			out = append(out, s.StringVal)
		}
		return out, true
	}
	return nil, false
}

func (pos *c17Pos) gnmiPath(alt []string, keyCand string) *gpb.Path {
	out := &gpb.Path{}
	for li, l := range pos.Chain {
		for ni, n := range l.Names {
			pe := &gpb.PathElem{Name: n}
			if ni == len(l.Names)-1 && l.Tuple != nil {
				pe.Key = map[string]string{}
				for ki, kn := range l.KeyNames {
					pe.Key[kn] = core.RefKeyString(l.Tuple[ki])
					if pos.isKey() && li == len(pos.Chain)-1 && kn == pos.KeyName {
						pe.Key[kn] = keyCand
					}
				}
			}
			out.Elem = append(out.Elem, pe)
		}
	}
	for _, n := range alt {
		out.Elem = append(out.Elem, &gpb.PathElem{Name: n})
	}
	return out
}

// elementKeyIndex: for a key position of a single-key list below single-key lists only, the index of
// the key value in an "element" (string slice) path.
func (pos *c17Pos) elementKeyIndex() (int, bool) {
	if !pos.isKey() {
		return 0, false
	}
	idx := 0
	for _, l := range pos.Chain {
		idx += len(l.Names)
		if l.Tuple != nil {
			if len(l.KeyNames) != 1 {
				return 0, false
			}
			idx++
		}
	}
	return idx - 1, true
}

func c17NamesEqual(elems []*gpb.PathElem, names []string) bool {
	if len(elems) != len(names) {
		return false
	}
	for i, e := range elems {
		if e.GetName() != names[i] {
			return false
		}
	}
	return true
}

// ---- findings -----------------------------------------------------------------------------------

type c17Case struct {
	Pkg  string `json:"pkg"`
	Mode string `json:"mode"` // defined | zero | undefined | type | schema | generator
	Pos  string `json:"pos,omitempty"`
	Type string `json:"type,omitempty"`
	Val  int64  `json:"val,omitempty"`
}

type c17Finding struct {
	Clause, Class, Detail string
}

type c17Eval struct {
	fs       []c17Finding
	outcomes map[string]int
}

func (e *c17Eval) add(clause, class, format string, args ...interface{}) {
	e.fs = append(e.fs, c17Finding{clause, class, fmt.Sprintf(format, args...)})
}
func (e *c17Eval) outcome(s string) {
	if e.outcomes == nil {
		e.outcomes = map[string]int{}
	}
	e.outcomes[s]++
}

func c17Kind(p *core.Pkg, t reflect.Type) string {
	for _, d := range p.EnumMap[t.Name()] {
		if d.DefiningModule != "" {
			return "identity"
		}
	}
	return "enum"
}

func c17After(s string) string {
	if i := strings.LastIndex(s, ":"); i >= 0 {
		return s[i+1:]
	}
	return s
}

// c17NameClass abstracts a YANG name (within its type) for signatures.
func c17NameClass(p *core.Pkg, t reflect.Type, n int64) string {
	m := p.EnumMap[t.Name()]
	d, ok := m[n]
	if !ok {
		return "-"
	}
	name := d.Name
	sharedTail, tailOfSibling, dupBare := false, false, false
	for k, o := range m {
		if k == n {
			continue
		}
		if o.Name == name {
			dupBare = true
			continue
		}
		if strings.Contains(name, ":") && c17After(o.Name) == c17After(name) {
			sharedTail = true
		}
		if !strings.Contains(name, ":") && strings.Contains(o.Name, ":") && c17After(o.Name) == name {
			tailOfSibling = true
		}
	}
	switch {
	case dupBare:
		return "dup-name"
	case sharedTail:
		return "colon-tail-shared"
	case strings.Contains(name, ":"):
		return "colon"
	case tailOfSibling:
		return "tail-of-colon-sibling"
	}
	plain := true
	for _, r := range name {
		if !(r >= 'a' && r <= 'z' || r >= 'A' && r <= 'Z' || r >= '0' && r <= '9' || r == '_' || r == '-' || r == '.') {
			plain = false
		}
	}
	switch {
	case !plain:
		return "punct"
	case name[0] >= '0' && name[0] <= '9':
		return "digit-first"
	}
	return "plain"
}

func c17Accepted(d ygot.EnumDefinition) map[string]bool {
	a := map[string]bool{d.Name: true}
	if d.DefiningModule != "" {
		a[d.DefiningModule+":"+d.Name] = true
	}
	return a
}

func c17AllIn(ss []string, acc map[string]bool) bool {
	if len(ss) == 0 {
		return false
	}
	for _, s := range ss {
		if !acc[s] {
			return false
		}
	}
	return true
}

// tally runs fn trials times and summarises the distinct answers, sorted; ok reports whether every
// answer was want.
func c17Tally(trials int, want string, fn func() string) (summary string, ok bool) {
	cnt := map[string]int{}
	for i := 0; i < trials; i++ {
		cnt[fn()]++
	}
	ok = len(cnt) == 1 && cnt[want] == trials
	var parts []string
	for _, k := range core.SortedKeys(cnt) {
		parts = append(parts, fmt.Sprintf("%s x%d", k, cnt[k]))
	}
	return strings.Join(parts, " | "), ok
}

// ---- evaluation of one defined value at one position ------------------------------------------

func c17EvalDefined(pos *c17Pos, n int64, trials int) *c17Eval {
	e := &c17Eval{}
	p := pos.P
	d := p.EnumMap[pos.T.Name()][n]
	class := c17NameClass(p, pos.T, n)
	want := c17Want(pos, n)
	acc := c17Accepted(d)
	in, err := c17Build(pos)
	if err == nil {
		err = in.set(pos, n)
	}
	if err != nil {
		e.outcome("position-not-buildable")
		e.add("harness-build", class, "cannot build %s with %s: %v", pos.ID, want, err)
		return e
	}
	bareAmbiguous := false
	for k, o := range p.EnumMap[pos.T.Name()] {
		if k != n && o.Name == d.Name && o.DefiningModule != d.DefiningModule {
			bareAmbiguous = true
		}
	}
	var cands [][2]string
	if bareAmbiguous {
		e.outcome("excluded-bare-name-shared-by-two-modules")
	} else {
		cands = append(cands, [2]string{"bare", d.Name})
	}
	if d.DefiningModule != "" {
		cands = append(cands, [2]string{"prefixed", d.DefiningModule + ":" + d.Name})
	} else {
		e.outcome("excluded-prefixed-form-of-plain-enumeration")
	}

	// --- RFC 7951 JSON
	var tmpl []byte
	for _, opt := range c17JSONOpts {
		b, err := c17Marshal(in.root, opt)
		if err != nil {
			e.add(c17PanicOr("render-json-error", err), class, "Marshal7951(%s) of %s=%q failed: %v", opt, pos.ID, d.Name, err)
			continue
		}
		var doc interface{}
		if err := json.Unmarshal(b, &doc); err != nil {
			e.add("render-json-error", class, "Marshal7951(%s) output is not JSON: %v: %s", opt, err, b)
			continue
		}
		good := true
		for _, alt := range pos.Alts {
			v, ok := c17JSONFind(doc, pos.names(alt))
			if !ok {
				e.add("render-json-missing", class, "Marshal7951(%s): %s=%q not in output %s", opt, strings.Join(pos.names(alt), "/"), d.Name, b)
				good = false
				continue
			}
			ss, ok := c17JSONStrings(v)
			if !ok || !c17AllIn(ss, acc) {
				e.add("render-json-wrong-name", class, "Marshal7951(%s): %s rendered as %v, want %q: %s", opt, strings.Join(pos.names(alt), "/"), v, d.Name, b)
				good = false
			}
		}
		if good {
			e.outcome("json-rendered-name")
			if tmpl == nil {
				tmpl = b
			}
		}
		sum, ok := c17Tally(c17RoundTripRuns, want, func() string {
			fresh := p.NewRoot()
			if err := safeUnmarshal(p, b, fresh); err != nil {
				return "error: " + c17Short(err)
			}
			return c17Read(pos, fresh)
		})
		if !ok {
			e.add("roundtrip-json", class, "Unmarshal of Marshal7951(%s) output %s gives {%s}, want %s", opt, b, sum, want)
		} else {
			e.outcome("json-roundtrip-ok")
		}
	}
	if tmpl == nil {
		e.outcome("parse-json-skipped-no-template")
	} else {
		for _, c := range cands {
			var doc interface{}
			json.Unmarshal(tmpl, &doc)
			okSet := true
			for _, alt := range pos.Alts {
				var val interface{} = c[1]
				if pos.isLL() {
					val = []interface{}{c[1]}
				}
				if !c17JSONSet(doc, pos.names(alt), val) {
					okSet = false
				}
			}
			if !okSet {
				e.outcome("parse-json-skipped-no-template")
				continue
			}
			b, _ := json.Marshal(doc)
			sum, ok := c17Tally(trials, want, func() string {
				fresh := p.NewRoot()
				if err := safeUnmarshal(p, b, fresh); err != nil {
					return "error: " + c17Short(err)
				}
				return c17Read(pos, fresh)
			})
			if !ok {
				e.add("parse-json-"+c[0], class, "Unmarshal(%s) gives {%s}, want %s", b, sum, want)
			} else {
				e.outcome("parse-json-" + c[0] + "-ok")
			}
		}
	}

	// --- gNMI notifications
	ns, err := c17Notifs(in.root)
	if err != nil {
		e.add(c17PanicOr("render-gnmi-error", err), class, "TogNMINotifications of %s=%q failed: %v", pos.ID, d.Name, err)
	} else {
		type upd struct {
			path *gpb.Path
			val  *gpb.TypedValue
		}
		var ups []upd
		for _, nf := range ns {
			for _, u := range nf.GetUpdate() {
				ups = append(ups, upd{&gpb.Path{Elem: core.JoinElems(nf.GetPrefix(), u.GetPath())}, u.GetVal()})
			}
		}
		good := true
		for _, alt := range pos.Alts {
			names := pos.names(alt)
			found := false
			for _, u := range ups {
				if !c17NamesEqual(u.path.Elem, names) {
					continue
				}
				found = true
				ss, ok := c17TVStrings(u.val)
				if !ok || !c17AllIn(ss, acc) {
					e.add("render-gnmi-wrong-name", class, "TogNMINotifications: %s rendered as %v, want %q", strings.Join(names, "/"), u.val, d.Name)
					good = false
				}
			}
			if !found {
				e.add("render-gnmi-missing", class, "TogNMINotifications: no update for %s=%q among %d updates", strings.Join(names, "/"), d.Name, len(ups))
				good = false
			}
		}
		if pos.isKey() {
			depth := len(pos.names(nil))
			for _, u := range ups {
				if len(u.path.Elem) >= depth {
					if ks, ok := u.path.Elem[depth-1].GetKey()[pos.KeyName]; !ok || !acc[ks] {
						e.add("render-gnmi-wrong-name", class, "TogNMINotifications: key %s of %v rendered as %q, want %q", pos.KeyName, u.path.Elem[depth-1], ks, d.Name)
						good = false
					}
				}
			}
		}
		if good {
			e.outcome("gnmi-rendered-name")
		}
		sum, ok := c17Tally(c17RoundTripRuns, want, func() string {
			fresh := p.NewRoot()
			for _, u := range ups {
				if err := c17SetNode(p, fresh, u.path, u.val); err != nil {
					return "error: " + c17Short(err)
				}
			}
			return c17Read(pos, fresh)
		})
		if !ok {
			e.add("roundtrip-gnmi", class, "SetNode of the %d emitted updates gives {%s}, want %s", len(ups), sum, want)
		} else {
			e.outcome("gnmi-roundtrip-ok")
		}
	}
	// the older "element" path format renders keys through KeyValueAsString (single-key lists only)
	if idx, ok := pos.elementKeyIndex(); ok {
		ns, err := c17NotifsElement(in.root)
		if err != nil {
			e.add(c17PanicOr("render-gnmi-element-error", err), class, "TogNMINotifications(element paths) of %s=%q failed: %v", pos.ID, d.Name, err)
		} else {
			good, seen := true, 0
			for _, nf := range ns {
				for _, u := range nf.GetUpdate() {
					el := append(append([]string{}, nf.GetPrefix().GetElement()...), u.GetPath().GetElement()...)
					if len(el) > idx {
						seen++
						if !acc[el[idx]] {
							good = false
							e.add("render-gnmi-element-wrong-name", class, "TogNMINotifications(element paths): key rendered as %q in %v, want %q", el[idx], el, d.Name)
						}
					}
				}
			}
			if good && seen > 0 {
				e.outcome("gnmi-element-path-rendered-name")
			}
		}
	}
	for _, c := range cands {
		tv := &gpb.TypedValue{Value: &gpb.TypedValue_StringVal{StringVal: c[1]}}
		if pos.isLL() {
			tv = &gpb.TypedValue{Value: &gpb.TypedValue_LeaflistVal{LeaflistVal: &gpb.ScalarArray{Element: []*gpb.TypedValue{tv}}}}
		}
		path := pos.gnmiPath(pos.Alts[0], c[1])
		sum, ok := c17Tally(trials, want, func() string {
			fresh := p.NewRoot()
			if err := c17SetNode(p, fresh, path, tv); err != nil {
				return "error: " + c17Short(err)
			}
			return c17Read(pos, fresh)
		})
		if !ok {
			e.add("parse-gnmi-"+c[0], class, "SetNode(%v, %v) gives {%s}, want %s", path, tv, sum, want)
		} else {
			e.outcome("parse-gnmi-" + c[0] + "-ok")
		}
	}

	// --- EncodeTypedValue of the field value (scalar positions: the bare enum value is covered at type level)
	if pos.Role != "leaf" && pos.Role != "key" {
		fv := in.parent.Elem().Field(pos.Field).Interface()
		tv, err := c17Encode(fv)
		if err != nil {
			e.add(c17PanicOr("encode-tv-error", err), class, "EncodeTypedValue(%T holding %s) failed: %v", fv, want, err)
		} else if ss, ok := c17TVStrings(tv); !ok || !c17AllIn(ss, acc) {
			e.add("encode-tv-wrong-name", class, "EncodeTypedValue(%T holding %s) = %v, want %q", fv, want, tv, d.Name)
		} else {
			e.outcome("encode-tv-field-ok")
		}
	}
	return e
}

func c17Short(err error) string {
	s := err.Error()
	if strings.HasPrefix(s, "PANIC") {
		return "PANIC"
	}
	if len(s) > 90 {
		s = s[:90] + "..."
	}
	return s
}

func c17PanicOr(clause string, err error) string {
	if err != nil && strings.HasPrefix(err.Error(), "PANIC") {
		return "panic-" + clause
	}
	return clause
}

// ---- zero and undefined values ----------------------------------------------------------------

func c17EvalZero(pos *c17Pos) *c17Eval {
	e := &c17Eval{}
	if pos.Role != "leaf" && pos.Role != "union" {
		e.outcome("excluded-zero-as-leaflist-element-or-key")
		return e
	}
	in, err := c17Build(pos)
	if err == nil {
		err = in.set(pos, 0)
	}
	if err != nil {
		e.outcome("zero-not-buildable")
		return e
	}
	for _, opt := range c17JSONOpts {
		b, err := c17Marshal(in.root, opt)
		if err != nil {
			if strings.HasPrefix(err.Error(), "PANIC") {
				e.add("panic-zero-json", "-", "Marshal7951(%s) with %s unset: %v", opt, pos.ID, err)
			}
			e.outcome("zero-json-error")
			continue
		}
		var doc interface{}
		json.Unmarshal(b, &doc)
		for _, alt := range pos.Alts {
			if v, ok := c17JSONFind(doc, pos.names(alt)); ok {
				e.add("zero-rendered-json", "-", "Marshal7951(%s): unset %s rendered as %v: %s", opt, pos.ID, v, b)
			} else {
				e.outcome("zero-omitted-json")
			}
		}
	}
	ns, err := c17Notifs(in.root)
	if err != nil {
		if strings.HasPrefix(err.Error(), "PANIC") {
			e.add("panic-zero-gnmi", "-", "TogNMINotifications with %s unset: %v", pos.ID, err)
		}
		e.outcome("zero-gnmi-error")
		return e
	}
	for _, nf := range ns {
		for _, u := range nf.GetUpdate() {
			full := core.JoinElems(nf.GetPrefix(), u.GetPath())
			for _, alt := range pos.Alts {
				if c17NamesEqual(full, pos.names(alt)) {
					e.add("zero-rendered-gnmi", "-", "TogNMINotifications: unset %s rendered as %v", pos.ID, u.GetVal())
				}
			}
		}
	}
	e.outcome("zero-omitted-gnmi")
	return e
}

func c17Undefined(p *core.Pkg, t reflect.Type) []int64 {
	m := p.EnumMap[t.Name()]
	max := int64(0)
	for k := range m {
		if k > max {
			max = k
		}
	}
	var out []int64
	for _, c := range []int64{-1, max + 1, math.MinInt64, math.MaxInt64} {
		if _, ok := m[c]; !ok && c != 0 {
			dup := false
			for _, o := range out {
				if o == c {
					dup = true
				}
			}
			if !dup {
				out = append(out, c)
			}
		}
	}
	return out
}

func c17UndefClass(n int64) string {
	switch {
	case n == math.MinInt64:
		return "minint64"
	case n == math.MaxInt64:
		return "maxint64"
	case n < 0:
		return "negative"
	}
	return "above-max"
}

func c17EvalUndefined(pos *c17Pos, n int64) *c17Eval {
	e := &c17Eval{}
	class := c17UndefClass(n)
	in, err := c17Build(pos)
	if err == nil {
		err = in.set(pos, n)
	}
	if err != nil {
		e.outcome("undefined-not-buildable")
		return e
	}
	for _, opt := range c17JSONOpts {
		b, err := c17Marshal(in.root, opt)
		switch {
		case err == nil:
			e.add("undefined-rendered-json", class, "Marshal7951(%s) with %s = %s (undefined) returned no error: %s", opt, pos.ID, c17Want(pos, n), b)
		case strings.HasPrefix(err.Error(), "PANIC"):
			e.add("panic-undefined-json", class, "Marshal7951(%s) with %s = %s: %v", opt, pos.ID, c17Want(pos, n), err)
		default:
			e.outcome("undefined-json-error")
		}
	}
	ns, err := c17Notifs(in.root)
	switch {
	case err == nil:
		e.add("undefined-rendered-gnmi", class, "TogNMINotifications with %s = %s (undefined) returned no error: %d notifications", pos.ID, c17Want(pos, n), len(ns))
	case strings.HasPrefix(err.Error(), "PANIC"):
		e.add("panic-undefined-gnmi", class, "TogNMINotifications with %s = %s: %v", pos.ID, c17Want(pos, n), err)
	default:
		e.outcome("undefined-gnmi-error")
	}
	if _, ok := pos.elementKeyIndex(); ok {
		ns, err := c17NotifsElement(in.root)
		switch {
		case err == nil:
			e.add("undefined-rendered-gnmi-element", class, "TogNMINotifications(element paths) with %s = %s (undefined) returned no error: %d notifications", pos.ID, c17Want(pos, n), len(ns))
		case strings.HasPrefix(err.Error(), "PANIC"):
			e.add("panic-undefined-gnmi-element", class, "TogNMINotifications(element paths) with %s = %s: %v", pos.ID, c17Want(pos, n), err)
		default:
			e.outcome("undefined-gnmi-element-error")
		}
	}
	fv := in.parent.Elem().Field(pos.Field).Interface()
	tv, err := c17Encode(fv)
	switch {
	case err == nil:
		e.add("undefined-rendered-encode-tv", class, "EncodeTypedValue(%T holding %s, undefined) = %v, want error", fv, c17Want(pos, n), tv)
	case strings.HasPrefix(err.Error(), "PANIC"):
		e.add("panic-undefined-encode-tv", class, "EncodeTypedValue(%T holding %s): %v", fv, c17Want(pos, n), err)
	default:
		e.outcome("undefined-encode-tv-error")
	}
	return e
}

// ---- type level ---------------------------------------------------------------------------------

func c17SortedNums(m map[int64]ygot.EnumDefinition) []int64 {
	var out []int64
	for k := range m {
		out = append(out, k)
	}
	sort.Slice(out, func(i, j int) bool { return out[i] < out[j] })
	return out
}

func c17EvalType(p *core.Pkg, t reflect.Type) *c17Eval {
	e := &c17Eval{}
	m := p.EnumMap[t.Name()]
	if m == nil {
		e.add("type-without-map", "-", "enum type %s has no entry in ΛEnum", t.Name())
		return e
	}
	// the type's own ΛMap must be the package table
	if ge, ok := reflect.New(t).Elem().Interface().(ygot.GoEnum); !ok || ge.ΛMap()[t.Name()] == nil {
		e.add("type-without-map", "-", "%s.ΛMap() has no entry for its own type", t.Name())
	}
	seen := map[string]int64{}
	for _, n := range c17SortedNums(m) {
		d := m[n]
		key := d.DefiningModule + ":" + d.Name
		if o, dup := seen[key]; dup {
			e.add("names-not-unique", "-", "%s: values %d and %d both carry the name %q (module %q)", t.Name(), o, n, d.Name, d.DefiningModule)
		}
		seen[key] = n
		if d.Name == "" {
			e.add("empty-name", "-", "%s: value %d has an empty name", t.Name(), n)
		}
		if n == 0 {
			e.add("zero-is-defined-value", "-", "%s: the defined YANG value %q is mapped to Go value 0 (UNSET), so it can never be rendered", t.Name(), d.Name)
			continue
		}
		class := c17NameClass(p, t, n)
		s, err := c17EnumName(t, n)
		switch {
		case err != nil:
			e.add(c17PanicOr("enumname-error", err), class, "EnumName(%s(%d)) failed: %v", t.Name(), n, err)
		case s != d.Name:
			e.add("enumname-wrong", class, "EnumName(%s(%d)) = %q, want %q", t.Name(), n, s, d.Name)
		default:
			e.outcome("enumname-ok")
		}
		ev := reflect.New(t).Elem()
		ev.SetInt(n)
		tv, err := c17Encode(ev.Interface())
		if err != nil {
			e.add(c17PanicOr("encode-tv-error", err), class, "EncodeTypedValue(%s(%d)) failed: %v", t.Name(), n, err)
		} else if ss, ok := c17TVStrings(tv); !ok || !c17AllIn(ss, c17Accepted(d)) {
			e.add("encode-tv-wrong-name", class, "EncodeTypedValue(%s(%d)) = %v, want %q", t.Name(), n, tv, d.Name)
		} else {
			e.outcome("encode-tv-ok")
		}
	}
	// zero
	if _, def := m[0]; !def {
		if s, err := c17EnumName(t, 0); err == nil && s != "" {
			e.add("zero-rendered-enumname", "-", "EnumName(%s(0)) = %q", t.Name(), s)
		} else {
			e.outcome("zero-enumname-empty")
		}
		ev := reflect.New(t).Elem()
		if tv, err := c17Encode(ev.Interface()); err == nil && tv != nil {
			if ss, ok := c17TVStrings(tv); ok && len(ss) == 1 && ss[0] == "" {
				e.outcome("not-judged-zero-encode-tv-gives-empty-string")
			} else {
				e.add("zero-rendered-encode-tv", "-", "EncodeTypedValue(%s(0)) = %v", t.Name(), tv)
			}
		} else {
			e.outcome("zero-encode-tv-nothing")
		}
	}
	for _, n := range c17Undefined(p, t) {
		class := c17UndefClass(n)
		if s, err := c17EnumName(t, n); err == nil {
			e.add("undefined-rendered-enumname", class, "EnumName(%s(%d)) = %q, want error", t.Name(), n, s)
		} else if strings.HasPrefix(err.Error(), "PANIC") {
			e.add("panic-undefined-enumname", class, "EnumName(%s(%d)): %v", t.Name(), n, err)
		} else {
			e.outcome("undefined-enumname-error")
		}
		ev := reflect.New(t).Elem()
		ev.SetInt(n)
		if tv, err := c17Encode(ev.Interface()); err == nil {
			e.add("undefined-rendered-encode-tv", class, "EncodeTypedValue(%s(%d)) = %v, want error", t.Name(), n, tv)
		} else if strings.HasPrefix(err.Error(), "PANIC") {
			e.add("panic-undefined-encode-tv", class, "EncodeTypedValue(%s(%d)): %v", t.Name(), n, err)
		} else {
			e.outcome("undefined-encode-tv-error")
		}
	}
	return e
}

// ---- comparison with goyang -----------------------------------------------------------------------

type c17Def struct{ Name, Module string }

type c17Gy struct {
	err   error
	roots map[string]*yang.Entry
	kids  map[string][]string // "module/identity" -> directly derived "module/identity"
}

func c17SchemaFiles(c *core.Ctx, schema string) (dir string, files []string) {
	s, rm := filepath.Join(c.VerifDir, "schemas"), filepath.Join(c.RepoDir, "testdata", "modules")
	switch schema {
	case "vt":
		return s, []string{"vt.yang", "vt-aug.yang"}
	case "voc":
		return s, []string{"voc.yang"}
	case "vk":
		return s, []string{"vk.yang"}
	case "ven":
		return s, []string{"ven.yang", "openconfig-vex.yang"}
	case "venx-fold":
		return s, []string{"venx-fold.yang"}
	case "venx-unset":
		return s, []string{"venx-unset.yang"}
	case "venx-dupid":
		return s, []string{"venx-dupid.yang", "venx-dupid-b.yang"}
	case "venrepo-u":
		return rm, []string{"enum-module.yang", "enum-union.yang", "enum-list-uncompressed.yang"}
	case "venrepo-c":
		return rm, []string{"openconfig-list-enum-key.yang", "openconfig-enumcamelcase.yang", "enum-module.yang", "enum-union.yang"}
	}
	// any other corpus schema: <name>.yang under /verif/schemas
	if _, err := os.Stat(filepath.Join(s, schema+".yang")); err == nil {
		return s, []string{schema + ".yang"}
	}
	return "", nil
}

func c17ModName(n yang.Node) string {
	m := yang.RootNode(n)
	if m == nil {
		return "?"
	}
	if m.BelongsTo != nil {
		return m.BelongsTo.Name
	}
	return m.Name
}

func c17Compile(dir string, files []string) (g *c17Gy) {
	g = &c17Gy{roots: map[string]*yang.Entry{}, kids: map[string][]string{}}
	defer func() {
		if r := recover(); r != nil {
			g.err = fmt.Errorf("goyang panicked: %v", r)
		}
	}()
	if dir == "" {
		g.err = fmt.Errorf("no YANG sources known for this schema")
		return g
	}
	ms := yang.NewModules()
	ms.AddPath(dir)
	for _, f := range files {
		if err := ms.Read(filepath.Join(dir, f)); err != nil {
			g.err = err
			return g
		}
	}
	listed := map[*yang.Module]bool{}
	for _, m := range ms.Modules {
		listed[m] = true
	}
	if errs := ms.Process(); len(errs) > 0 {
		g.err = fmt.Errorf("goyang: %v", errs)
		return g
	}
	var lm []*yang.Module
	for m := range listed {
		lm = append(lm, m)
	}
	sort.Slice(lm, func(i, j int) bool { return lm[i].Name < lm[j].Name })
	for _, m := range lm {
		e := yang.ToEntry(m)
		for n, c := range e.Dir {
			if _, dup := g.roots[n]; !dup {
				g.roots[n] = c
			}
		}
	}
	all := map[*yang.Module]bool{}
	for _, m := range ms.Modules {
		all[m] = true
	}
	for _, m := range ms.SubModules {
		all[m] = true
	}
	for m := range all {
		for _, id := range m.Identity {
			child := c17ModName(id) + "/" + id.Name
			for _, b := range id.Base {
				prefix, name := "", b.Name
				if i := strings.Index(name, ":"); i >= 0 {
					prefix, name = name[:i], name[i+1:]
				}
				bm := yang.FindModuleByPrefix(id, prefix)
				if bm == nil {
					g.err = fmt.Errorf("identity %s: cannot resolve base %s", child, b.Name)
					return g
				}
				base := c17ModName(bm) + "/" + name
				g.kids[base] = append(g.kids[base], child)
			}
		}
	}
	return g
}

func (g *c17Gy) derived(base string) []c17Def {
	seen := map[string]bool{}
	var walk func(k string)
	walk = func(k string) {
		for _, c := range g.kids[k] {
			if !seen[c] {
				seen[c] = true
				walk(c)
			}
		}
	}
	walk(base)
	var out []c17Def
	for k := range seen {
		i := strings.Index(k, "/")
		out = append(out, c17Def{k[i+1:], k[:i]})
	}
	return out
}

func (g *c17Gy) lookup(names []string) *yang.Entry {
	if len(names) == 0 {
		return nil
	}
	r := g.roots[names[0]]
	if r == nil || len(names) == 1 {
		return r
	}
	e, _ := core.FindChild(r, names[1:])
	return e
}

// defs returns the definition sets (one per enumeration / identityref member) of a leaf's type.
func (g *c17Gy) defs(e *yang.Entry, t *yang.YangType, depth int) [][]c17Def {
	if t == nil || depth > 8 {
		return nil
	}
	switch t.Kind {
	case yang.Yenum:
		var out []c17Def
		if t.Enum != nil {
			for _, n := range t.Enum.Names() {
				out = append(out, c17Def{n, ""})
			}
		}
		return [][]c17Def{out}
	case yang.Yidentityref:
		if t.IdentityBase == nil {
			return nil
		}
		return [][]c17Def{g.derived(c17ModName(t.IdentityBase) + "/" + t.IdentityBase.Name)}
	case yang.Yunion:
		var out [][]c17Def
		for _, m := range t.Type {
			out = append(out, g.defs(e, m, depth+1)...)
		}
		return out
	case yang.Yleafref:
		path := t.Path
		for {
			i := strings.Index(path, "[")
			j := strings.Index(path, "]")
			if i < 0 || j < i {
				break
			}
			path = path[:i] + path[j+1:]
		}
		if tgt := e.Find(path); tgt != nil && tgt != e {
			return g.defs(tgt, tgt.Type, depth+1)
		}
	}
	return nil
}

func c17DefKey(ds []c17Def) string {
	var s []string
	for _, d := range ds {
		s = append(s, d.Module+":"+d.Name)
	}
	sort.Strings(s)
	return strings.Join(s, " ")
}

func c17EvalSchema(p *core.Pkg, g *c17Gy) *c17Eval {
	e := &c17Eval{}
	if g.err != nil {
		e.add("goyang-compile", "-", "cannot compile the YANG sources of schema %s with goyang: %v", p.SchemaName, g.err)
		return e
	}
	poss, _ := c17Positions(p)
	for _, pos := range poss {
		var gdefs [][]c17Def
		var names []string
		for _, alt := range pos.Alts {
			names = pos.names(alt)
			if ge := g.lookup(names); ge != nil {
				gdefs = g.defs(ge, ge.Type, 0)
				break
			}
		}
		if gdefs == nil {
			e.add("goyang-node-missing", "-", "position %s (%s): goyang has no enumerated leaf at /%s", pos.ID, p.Name, strings.Join(names, "/"))
			continue
		}
		var mine []c17Def
		for _, d := range p.EnumMap[pos.T.Name()] {
			mine = append(mine, c17Def{d.Name, d.DefiningModule})
		}
		match := false
		var have []string
		for _, gd := range gdefs {
			have = append(have, "{"+c17DefKey(gd)+"}")
			if c17DefKey(gd) == c17DefKey(mine) {
				match = true
			}
		}
		if !match {
			e.add("goyang-mismatch", c17Kind(p, pos.T)+"@"+pos.Role, "%s at /%s: ΛEnum[%s] defines {%s} but the YANG (goyang) defines %s", p.Name, strings.Join(names, "/"), pos.T.Name(), c17DefKey(mine), strings.Join(have, " or "))
		} else {
			e.outcome("goyang-definitions-equal")
		}
	}
	return e
}

// ---- driver -----------------------------------------------------------------------------------------

type c17Job struct {
	cs   c17Case
	pos  *c17Pos
	t    reflect.Type
	mode string
}

func c17AllPkgs() []*core.Pkg {
	// the 8 corpus packages, the enum corpus (ven*) and the key corpus (vk); auxiliary corpora that
	// other properties add later (vval, vlr, vdef, vps ...) are not part of C17's input
	out := append([]*core.Pkg{}, core.Packages()...)
	for _, p := range core.AuxPackages() {
		if strings.HasPrefix(p.SchemaName, "ven") || p.SchemaName == "vk" {
			out = append(out, p)
		}
	}
	return out
}

func c17PosByID(p *core.Pkg, id string) *c17Pos {
	ps, _ := c17Positions(p)
	for _, pos := range ps {
		if pos.ID == id {
			return pos
		}
	}
	return nil
}

func c17TypeByName(p *core.Pkg, n string) reflect.Type {
	for _, t := range p.EnumTypes() {
		if t.Name() == n {
			return t
		}
	}
	return nil
}

func c17RunCase(c *core.Ctx, cs c17Case, trials int) *c17Eval {
	if cs.Mode == "generator" {
		e := &c17Eval{}
		for _, o := range core.GenOutcomes() {
			if o.Pkg == cs.Pkg && o.Stage == "compile" {
				e.add("generated-code-uncompilable", o.Schema, "the generator accepted schema %s (%s) but the generated Go code does not compile: %s", o.Schema, o.Config, o.Detail)
			}
		}
		return e
	}
	p := core.AnyPkgByName(cs.Pkg)
	if p == nil {
		return &c17Eval{}
	}
	switch cs.Mode {
	case "type":
		if t := c17TypeByName(p, cs.Type); t != nil {
			return c17EvalType(p, t)
		}
	case "schema":
		return c17EvalSchema(p, c17GyFor(c, p.SchemaName))
	case "defined", "zero", "undefined":
		pos := c17PosByID(p, cs.Pos)
		if pos == nil {
			return &c17Eval{}
		}
		switch cs.Mode {
		case "defined":
			return c17EvalDefined(pos, cs.Val, trials)
		case "zero":
			return c17EvalZero(pos)
		}
		return c17EvalUndefined(pos, cs.Val)
	}
	return &c17Eval{}
}

var (
	c17GyMu    sync.Mutex
	c17GyCache = map[string]*c17Gy{}
)

func c17GyFor(c *core.Ctx, schema string) *c17Gy {
	c17GyMu.Lock()
	defer c17GyMu.Unlock()
	if g, ok := c17GyCache[schema]; ok {
		return g
	}
	dir, files := c17SchemaFiles(c, schema)
	g := c17Compile(dir, files)
	c17GyCache[schema] = g
	return g
}

func c17Sig(p *core.Pkg, cs c17Case, f c17Finding) string {
	switch cs.Mode {
	case "generator", "schema":
		return f.Clause + ":" + f.Class
	case "type":
		t := c17TypeByName(p, cs.Type)
		return f.Clause + ":" + c17Kind(p, t) + "/" + f.Class
	}
	pos := c17PosByID(p, cs.Pos)
	return f.Clause + ":" + c17Kind(p, pos.T) + "/" + f.Class + "@" + pos.Role
}

func runC17(c *core.Ctx) {
	c.Level = "exploration"
	trials := 12
	if c.Thorough() {
		trials = 64
	}
	c.Rule = fmt.Sprintf("every generated enum / identityref Go type of every corpus package (vt, voc; ven, venx-*, repo enum test modules under the enum-naming flag combinations) x every struct field position holding it (leaf, leaf-list, union, union leaf-list, list key, union list key; reflection walk over all generated structs) x {every defined value, 0, undefined representatives -1, max+1, MinInt64, MaxInt64}; renderers: EnumName, EncodeTypedValue, Marshal7951 x 4 configs, TogNMINotifications; decoders: generated Unmarshal and ytypes.SetNode(string_val), given the emitted document, the bare name and the module-prefixed name, each decode repeated %d times (map-order dependence); definitions compared with a direct goyang compilation of the YANG sources; non-trivial = a (package, position, defined value) triple", trials)
	c.R.Assume("the reflection builder/reader of c17.go (direct field assignment; generated To_<Union> only for wrapper unions) is correct; goyang parses the corpus YANG correctly (source of schema facts); identity derivation closure is computed by the harness from the identities' base statements")
	c.R.Assume("a name shared by two identities of different modules is only decoded in its module-prefixed form; module-prefixed forms of plain enumeration names are not judged (RFC 7951 defines none); 0 as a leaf-list element or list key is not judged")

	// generator outcomes of the auxiliary corpus
	genStages := map[string]int{}
	var jobs []c17Job
	for _, o := range core.GenOutcomes() {
		genStages[o.Stage]++
		c.R.Outcome("corpus-package-" + o.Stage)
		if o.Stage == "compile" {
			jobs = append(jobs, c17Job{cs: c17Case{Pkg: o.Pkg, Mode: "generator"}})
		}
		if o.Stage == "generator" {
			c.R.Note("generator_rejected_"+o.Pkg, o.Detail)
		}
	}
	c.R.Note("aux_corpus_generation", genStages)

	pkgs := c17AllPkgs()
	stats := map[string]interface{}{}
	distinctNamings := map[string]bool{}
	for _, p := range pkgs {
		poss, skipped := c17Positions(p)
		types := p.EnumTypes()
		var tn []string
		for _, t := range types {
			tn = append(tn, t.Name())
		}
		distinctNamings[p.SchemaName+"|"+strings.Join(tn, ",")] = true
		withPos := map[string]bool{}
		roles := map[string]int{}
		nvals := 0
		for _, pos := range poss {
			withPos[pos.T.Name()] = true
			roles[pos.Role]++
		}
		for _, t := range types {
			jobs = append(jobs, c17Job{cs: c17Case{Pkg: p.Name, Mode: "type", Type: t.Name()}})
			nvals += len(p.EnumMap[t.Name()])
			if !withPos[t.Name()] {
				c.R.Outcome("type-without-position")
			}
		}
		for name := range p.EnumMap {
			if c17TypeByName(p, name) == nil {
				c.R.Outcome("map-entry-without-go-type")
			}
		}
		jobs = append(jobs, c17Job{cs: c17Case{Pkg: p.Name, Mode: "schema"}})
		for _, pos := range poss {
			m := p.EnumMap[pos.T.Name()]
			for _, n := range c17SortedNums(m) {
				if n != 0 {
					jobs = append(jobs, c17Job{cs: c17Case{Pkg: p.Name, Mode: "defined", Pos: pos.ID, Val: n}})
				}
			}
			jobs = append(jobs, c17Job{cs: c17Case{Pkg: p.Name, Mode: "zero", Pos: pos.ID}})
			for _, n := range c17Undefined(p, pos.T) {
				jobs = append(jobs, c17Job{cs: c17Case{Pkg: p.Name, Mode: "undefined", Pos: pos.ID, Val: n}})
			}
		}
		stats[p.Name] = map[string]interface{}{"schema": p.SchemaName, "config": p.Config, "enum_types": len(types), "defined_values": nvals, "positions": len(poss), "positions_by_role": roles, "walk_skipped": skipped}
	}
	c.R.Note("packages", stats)
	c.R.Note("distinct_enum_type_namings", len(distinctNamings))
	c.R.Add("packages", int64(len(pkgs)))

	var sampleMu sync.Mutex
	sampled := map[string]bool{}
	core.ParallelFor(len(jobs), func(i int) {
		if i%64 == 0 && c.Expired() {
			return
		}
		cs := jobs[i].cs
		ev := c17RunCase(c, cs, trials)
		c.R.Add("evaluations", 1)
		c.R.Add("cases_"+cs.Mode, 1)
		for o, n := range ev.outcomes {
			for j := 0; j < n; j++ {
				c.R.Outcome(o)
			}
		}
		if cs.Mode == "defined" {
			c.R.NonTrivial(fmt.Sprintf("%s|%s|%d", cs.Pkg, cs.Pos, cs.Val))
			sampleMu.Lock()
			key := cs.Pkg[:3] + strings.SplitN(cs.Pos, "#", 2)[1]
			if !sampled[key] && len(sampled) < 6 && strings.HasPrefix(cs.Pkg, "ven") {
				sampled[key] = true
				p := core.AnyPkgByName(cs.Pkg)
				pos := c17PosByID(p, cs.Pos)
				c.R.Sample(map[string]interface{}{"pkg": cs.Pkg, "position": cs.Pos, "go_value": cs.Val, "yang_name": p.EnumMap[pos.T.Name()][cs.Val].Name, "module": p.EnumMap[pos.T.Name()][cs.Val].DefiningModule})
			}
			sampleMu.Unlock()
		}
		if len(ev.fs) == 0 {
			c.R.Outcome("case-holds")
			return
		}
		c.R.Outcome("case-violates")
		p := core.AnyPkgByName(cs.Pkg)
		for _, f := range ev.fs {
			c.R.Violation(c17Sig(p, cs, f), "["+cs.Pkg+"] "+f.Detail, cs)
		}
	})
}

func replayC17(c *core.Ctx, raw []byte) (bool, string) {
	var cs c17Case
	if err := json.Unmarshal(raw, &cs); err != nil {
		return false, err.Error()
	}
	ev := c17RunCase(c, cs, 64)
	if len(ev.fs) == 0 {
		return false, "no violation"
	}
	var d []string
	for _, f := range ev.fs {
		d = append(d, f.Clause+": "+f.Detail)
	}
	return true, strings.Join(d, " || ")
}
