package props

import (
	"encoding/json"
	"fmt"
	"sort"
	"strings"

	gpb "github.com/openconfig/gnmi/proto/gnmi"
	"github.com/openconfig/ygot/ygot"
	"github.com/openconfig/ygot/zzverif/core"
	"google.golang.org/protobuf/proto"
)

func init() { core.RegisterProp(&core.Prop{ID: "C08", Run: runC08, Replay: replayC08}) }

type c08Elem struct {
	Name string            `json:"name"`
	Keys map[string]string `json:"keys,omitempty"`
}
type c08Case struct {
	Elems []c08Elem `json:"elems"`
}

func (c c08Case) path() *gpb.Path {
	p := &gpb.Path{}
	for _, e := range c.Elems {
		pe := &gpb.PathElem{Name: e.Name}
		if len(e.Keys) > 0 {
			pe.Key = map[string]string{}
			for k, v := range e.Keys {
				pe.Key[k] = v
			}
		}
		p.Elem = append(p.Elem, pe)
	}
	return p
}

func (c c08Case) canon() string {
	var b strings.Builder
	for _, e := range c.Elems {
		fmt.Fprintf(&b, "/%q", e.Name)
		ks := make([]string, 0, len(e.Keys))
		for k := range e.Keys {
			ks = append(ks, k)
		}
		sort.Strings(ks)
		for _, k := range ks {
			fmt.Fprintf(&b, "[%q=%q]", k, e.Keys[k])
		}
	}
	return b.String()
}

// charClass is the sorted set of special characters occurring in the key values of the case.
func (c c08Case) charClass() string {
	set := map[rune]bool{}
	for _, e := range c.Elems {
		for _, v := range e.Keys {
			for _, r := range v {
				if strings.ContainsRune(`/[]=\ .`, r) || r > 127 {
					set[r] = true
				}
			}
			if strings.Contains(v, "..") {
				set['D'] = true // "dotdot"
			}
			if strings.Contains(v, "//") {
				set['S'] = true // "slashslash"
			}
			if strings.HasSuffix(v, `\`) {
				set['T'] = true // trailing backslash
			}
		}
	}
	var rs []string
	for r := range set {
		rs = append(rs, string(r))
	}
	sort.Strings(rs)
	return strings.Join(rs, "")
}

// c08Check evaluates the round-trip laws for one path. Returns clause and detail.
func c08Check(cs c08Case) (clause, detail string, rendered string) {
	p := cs.path()
	s, err := safeStr(func() (string, error) { return ygot.PathToString(p) })
	if err != nil {
		return "tostring-error", fmt.Sprintf("PathToString(%s) failed: %v", cs.canon(), err), ""
	}
	back, err := safePath(func() (*gpb.Path, error) { return ygot.StringToStructuredPath(s) })
	if err != nil {
		return "parse-error", fmt.Sprintf("StringToStructuredPath(%q) failed: %v (path %s)", s, err, cs.canon()), s
	}
	if !proto.Equal(p, back) {
		return "roundtrip", fmt.Sprintf("path %s -> %q -> %v", cs.canon(), s, back), s
	}
	// legacy string-slice form
	els, err := ygot.PathToStrings(p)
	if err != nil {
		return "tostrings-error", err.Error(), s
	}
	legacy := &gpb.Path{Element: els}
	ls, err := ygot.PathToString(legacy)
	if err != nil {
		return "legacy-tostring-error", err.Error(), s
	}
	lb, err := safePath(func() (*gpb.Path, error) { return ygot.StringToStringSlicePath(ls) })
	if err != nil {
		return "legacy-parse-error", fmt.Sprintf("StringToStringSlicePath(%q): %v", ls, err), s
	}
	if !proto.Equal(legacy, lb) {
		return "legacy-roundtrip", fmt.Sprintf("elements %q -> %q -> %q", els, ls, lb.Element), s
	}
	return "", "", s
}

func safeStr(f func() (string, error)) (s string, err error) {
	defer recoverTo(&err)
	return f()
}
func safePath(f func() (*gpb.Path, error)) (p *gpb.Path, err error) {
	defer recoverTo(&err)
	return f()
}

func c08Values(maxLen int) []string {
	alpha := []string{"a", "/", "[", "]", "=", `\`, " ", ".", "é"}
	var out []string
	level := []string{""}
	for l := 1; l <= maxLen; l++ {
		var nxt []string
		for _, p := range level {
			for _, a := range alpha {
				nxt = append(nxt, p+a)
			}
		}
		out = append(out, nxt...)
		level = nxt
	}
	return out
}

var c08Adversarial = []string{"v", "//", "..", "/../", `\`, `\]`, "]/", "=]", "a b", "[", `a\`, "é/"}

func runC08(c *core.Ctx) {
	c.Level = "exploration"
	maxLen := kFor(c, 3, 4)
	c.Rule = fmt.Sprintf("all gNMI paths with 1-2 elements over names {a, m:b, c-d.e_f}, 0-2 keys {k,k2}; one key takes every string of length 1..%d over the alphabet {a / [ ] = \\ space . é}, the others a 12-value adversarial set; round trip through PathToString/StringToStructuredPath and the legacy string-slice form, plus injectivity by hashing every produced string; non-trivial = path with at least one key whose value contains a special character", maxLen)
	names := []string{"a", "m:b", "c-d.e_f"}
	vals := c08Values(maxLen)
	var mu = make(chan struct{}, 1)
	seen := map[string]string{} // rendered string -> canonical path (injectivity)
	eval := func(cs c08Case) {
		c.R.Add("evaluations", 1)
		clause, detail, s := c08Check(cs)
		cc := cs.charClass()
		if cc != "" {
			c.R.NonTrivial(cs.canon())
		}
		if clause != "" {
			c.R.Violation(clause+":chars{"+cc+"}", detail, cs)
			c.R.Outcome(clause)
			return
		}
		c.R.Outcome("ok")
		mu <- struct{}{}
		if prev, ok := seen[s]; ok && prev != cs.canon() {
			c.R.Violation("not-injective:chars{"+cc+"}", fmt.Sprintf("%q is produced by both %s and %s", s, prev, cs.canon()), cs)
		} else {
			seen[s] = cs.canon()
		}
		<-mu
	}
	// no keys
	for _, n := range names {
		eval(c08Case{Elems: []c08Elem{{Name: n}}})
		for _, n2 := range names {
			eval(c08Case{Elems: []c08Elem{{Name: n}, {Name: n2}}})
		}
	}
	core.ParallelFor(len(vals), func(i int) {
		v := vals[i]
		for _, n := range names {
			eval(c08Case{Elems: []c08Elem{{Name: n, Keys: map[string]string{"k": v}}}})
			for _, a := range c08Adversarial {
				eval(c08Case{Elems: []c08Elem{{Name: n, Keys: map[string]string{"k": v, "k2": a}}}})
				eval(c08Case{Elems: []c08Elem{{Name: n, Keys: map[string]string{"k": a, "k2": v}}}})
				// two elements
				eval(c08Case{Elems: []c08Elem{{Name: "a", Keys: map[string]string{"k": a}}, {Name: n, Keys: map[string]string{"k": v}}}})
				eval(c08Case{Elems: []c08Elem{{Name: n, Keys: map[string]string{"k": v}}, {Name: "a", Keys: map[string]string{"k": a}}}})
			}
			eval(c08Case{Elems: []c08Elem{{Name: n, Keys: map[string]string{"k": v}}, {Name: "c-d.e_f"}}})
			eval(c08Case{Elems: []c08Elem{{Name: "m:b"}, {Name: n, Keys: map[string]string{"k": v}}}})
		}
	})
	c.R.Sample(c08Case{Elems: []c08Elem{{Name: "m:b", Keys: map[string]string{"k": `a]/`, "k2": `\]`}}}})
	c.R.Sample(c08Case{Elems: []c08Elem{{Name: "a", Keys: map[string]string{"k": "//"}}, {Name: "c-d.e_f", Keys: map[string]string{"k": `=é `}}}})
	c.R.Note("distinct_rendered_strings", len(seen))
}

func replayC08(c *core.Ctx, raw []byte) (bool, string) {
	var cs c08Case
	if err := json.Unmarshal(raw, &cs); err != nil {
		return false, err.Error()
	}
	clause, d, _ := c08Check(cs)
	return clause != "", clause + ": " + d
}
