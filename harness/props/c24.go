package props

// C24 — protomap paths<->proto mapping round-trips.
//
// Bounded exhaustive exploration of protomap.PathsFromProto / protomap.ProtoFromPaths over the
// annotated test protos that are compiled into the repository (exschemapath, gribi_aft). The
// message descriptors are classified by an independent reading of the yext annotations; every
// message with <= k supported fields set (values and list keys from small adversarial domains) is
// built by protoreflect and sent through both directions.

import (
	"encoding/json"
	"fmt"
	"math"
	"runtime/debug"
	"sort"
	"strings"
	"sync"

	gpb "github.com/openconfig/gnmi/proto/gnmi"
	yextpb "github.com/openconfig/ygot/proto/yext"
	wpb "github.com/openconfig/ygot/proto/ywrapper"
	"github.com/openconfig/ygot/protomap"
	aftpb "github.com/openconfig/ygot/protomap/integration_tests/testdata/gribi_aft"
	epb "github.com/openconfig/ygot/protomap/testdata/exschemapath"
	"github.com/openconfig/ygot/zzverif/core"
	"google.golang.org/protobuf/proto"
	"google.golang.org/protobuf/reflect/protoreflect"
	"google.golang.org/protobuf/reflect/protoregistry"
)

func init() { core.RegisterProp(&core.Prop{ID: "C24", Run: runC24, Replay: replayC24}) }

// ---------------------------------------------------------------------------------------------
// classification of the descriptors (independent of protomap)

type c24Key struct {
	fd   protoreflect.FieldDescriptor
	name string     // YANG key name (last element of the annotations)
	ann  [][]string // annotated schema paths of the key leaf
	kind string     // str | u64
}

type c24Field struct {
	fd   protoreflect.FieldDescriptor
	kind string // str uint bytes enum ll-str ll-uint ll-bool ll-int ll-bytes llu list container unsupported malformed
	why  string // reason for unsupported / malformed
	ann  [][]string
	// list
	keys   []c24Key
	member protoreflect.FieldDescriptor
	child  *c24Msg // container child / list member message
	// leaf-list of unions: supported member fields of the union message
	members []protoreflect.FieldDescriptor
	skipped []string // union members not exercised, with reason
}

type c24Msg struct {
	desc      protoreflect.MessageDescriptor
	fields    []*c24Field
	malformed string
	done      bool
}

type c24Classifier struct {
	msgs map[protoreflect.FullName]*c24Msg
}

func c24Ann(fd protoreflect.FieldDescriptor) ([][]string, string) {
	s, _ := proto.GetExtension(fd.Options(), yextpb.E_Schemapath).(string)
	if s == "" {
		return nil, "no-annotation"
	}
	var out [][]string
	for _, part := range strings.Split(s, "|") {
		if !strings.HasPrefix(part, "/") || strings.ContainsAny(part, "[]=") {
			return nil, "bad-annotation"
		}
		els := strings.Split(part[1:], "/")
		for _, e := range els {
			if e == "" {
				return nil, "bad-annotation"
			}
		}
		out = append(out, els)
	}
	return out, ""
}

func c24Flag(fd protoreflect.FieldDescriptor, ext protoreflect.ExtensionType) bool {
	b, _ := proto.GetExtension(fd.Options(), ext).(bool)
	return b
}

var c24Wrappers = map[protoreflect.FullName]string{
	"ywrapper.StringValue": "str", "ywrapper.UintValue": "uint", "ywrapper.BytesValue": "bytes",
	"ywrapper.BoolValue": "bool", "ywrapper.IntValue": "int", "ywrapper.Decimal64Value": "decimal64",
}

func c24EnumNamed(ed protoreflect.EnumDescriptor) []protoreflect.EnumValueDescriptor {
	var out []protoreflect.EnumValueDescriptor
	for i := 0; i < ed.Values().Len(); i++ {
		v := ed.Values().Get(i)
		if n, _ := proto.GetExtension(v.Options(), yextpb.E_YangName).(string); n != "" && v.Number() != 0 {
			out = append(out, v)
		}
	}
	return out
}

func (cl *c24Classifier) msg(md protoreflect.MessageDescriptor) *c24Msg {
	if m, ok := cl.msgs[md.FullName()]; ok {
		return m
	}
	m := &c24Msg{desc: md}
	cl.msgs[md.FullName()] = m
	for i := 0; i < md.Fields().Len(); i++ {
		f := cl.field(md.Fields().Get(i))
		m.fields = append(m.fields, f)
		if f.kind == "malformed" && m.malformed == "" {
			m.malformed = string(f.fd.Name()) + ":" + f.why
		}
	}
	m.done = true
	return m
}

func (cl *c24Classifier) field(fd protoreflect.FieldDescriptor) *c24Field {
	f := &c24Field{fd: fd}
	bad := func(kind, why string) *c24Field { f.kind, f.why = kind, why; return f }
	if fd.IsMap() {
		return bad("malformed", "map")
	}
	ann, why := c24Ann(fd)
	if why != "" {
		return bad("malformed", why)
	}
	f.ann = ann
	leaflist, llunion := c24Flag(fd, yextpb.E_Leaflist), c24Flag(fd, yextpb.E_Leaflistunion)
	switch {
	case fd.IsList() && leaflist:
		if fd.Kind() != protoreflect.MessageKind || len(ann) != 1 {
			return bad("malformed", "leaflist-shape")
		}
		w, ok := c24Wrappers[fd.Message().FullName()]
		switch {
		case !ok:
			return bad("malformed", "leaflist-of-non-wrapper")
		case w == "decimal64":
			return bad("unsupported", "leaflist-decimal64")
		}
		f.kind = "ll-" + w
		return f
	case fd.IsList() && llunion:
		if fd.Kind() != protoreflect.MessageKind || len(ann) != 1 {
			return bad("malformed", "leaflistunion-shape")
		}
		um := fd.Message()
		seenString := false
		for i := 0; i < um.Fields().Len(); i++ {
			uf := um.Fields().Get(i)
			switch {
			case uf.IsList() || uf.IsMap():
				f.skipped = append(f.skipped, string(uf.Name())+":repeated")
			case uf.Kind() == protoreflect.StringKind:
				seenString = true
				f.members = append(f.members, uf)
			case uf.Kind() == protoreflect.Uint64Kind, uf.Kind() == protoreflect.BoolKind:
				f.members = append(f.members, uf)
			case uf.Kind() == protoreflect.EnumKind:
				if seenString {
					// The YANG name of the enum value also fits the earlier string member: the paths form
					// (a plain string) cannot tell them apart, first match wins. Not a loss that the
					// property decides.
					f.skipped = append(f.skipped, string(uf.Name())+":enum-after-string-member")
				} else {
					f.members = append(f.members, uf)
				}
			default:
				f.skipped = append(f.skipped, string(uf.Name())+":kind-"+uf.Kind().String())
			}
		}
		if len(f.members) == 0 {
			return bad("unsupported", "union-without-supported-member")
		}
		f.kind = "llu"
		return f
	case fd.IsList():
		if fd.Kind() != protoreflect.MessageKind {
			return bad("malformed", "repeated-scalar-without-leaflist")
		}
		if len(ann) != 1 {
			return bad("malformed", "list-multi-annotation")
		}
		km := fd.Message()
		for i := 0; i < km.Fields().Len(); i++ {
			kf := km.Fields().Get(i)
			switch {
			case kf.IsList() || kf.IsMap():
				return bad("unsupported", "key-message-repeated-field")
			case kf.Kind() == protoreflect.MessageKind:
				if f.member != nil {
					return bad("unsupported", "key-message-two-members")
				}
				f.member = kf
			default:
				kann, why := c24Ann(kf)
				if why != "" {
					return bad("unsupported", "key-"+why)
				}
				name := kann[0][len(kann[0])-1]
				for _, a := range kann {
					if a[len(a)-1] != name {
						return bad("unsupported", "key-names-differ")
					}
				}
				k := c24Key{fd: kf, name: name, ann: kann}
				switch {
				case kf.ContainingOneof() != nil:
					return bad("unsupported", "key-in-oneof(union key)")
				case kf.Kind() == protoreflect.StringKind:
					k.kind = "str"
				case kf.Kind() == protoreflect.Uint64Kind:
					k.kind = "u64"
				default:
					return bad("unsupported", "key-kind-"+kf.Kind().String())
				}
				f.keys = append(f.keys, k)
			}
		}
		if f.member == nil || len(f.keys) == 0 {
			return bad("unsupported", "key-message-shape")
		}
		if _, isW := c24Wrappers[f.member.Message().FullName()]; isW {
			return bad("unsupported", "key-message-member-is-wrapper")
		}
		f.child = cl.msg(f.member.Message())
		f.kind = "list"
		return f
	case fd.Kind() == protoreflect.MessageKind:
		if w, ok := c24Wrappers[fd.Message().FullName()]; ok {
			switch w {
			case "str", "uint", "bytes":
				if fd.ContainingOneof() != nil {
					return bad("unsupported", "oneof")
				}
				f.kind = w
				return f
			default:
				return bad("unsupported", "wrapper-"+w)
			}
		}
		if len(ann) != 1 {
			return bad("malformed", "container-multi-annotation")
		}
		f.child = cl.msg(fd.Message())
		f.kind = "container"
		return f
	case fd.Kind() == protoreflect.EnumKind:
		if fd.ContainingOneof() != nil {
			return bad("unsupported", "oneof(union leaf)")
		}
		if len(c24EnumNamed(fd.Enum())) == 0 {
			return bad("unsupported", "enum-without-names")
		}
		f.kind = "enum"
		return f
	default:
		if fd.ContainingOneof() != nil {
			return bad("unsupported", "oneof(union leaf)")
		}
		return bad("unsupported", "bare-scalar-"+fd.Kind().String())
	}
}

// ---------------------------------------------------------------------------------------------
// atoms: one supported field set, at a position given by container / list-entry steps

type c24KV struct {
	name string
	fd   protoreflect.FieldDescriptor
	val  protoreflect.Value
	str  string // rendering of the key in a gNMI path
	cls  string
}

type c24Step struct {
	f    *c24Field
	keys []c24KV // nil for containers
	ki   int     // index of the key tuple in the list's key domain
}

type c24Val struct {
	repr string
	cls  string
	set  func(cur protoreflect.Message, fd protoreflect.FieldDescriptor)
}

type c24Atom struct {
	idx     int
	level   int // 0: first value, first two key tuples; 1: all values under first key tuples or first value under any; 2: the rest
	Name    string
	steps   []c24Step
	leaf    *c24Field // nil: bare list entry
	val     c24Val
	slot    string // position incl. keys (two atoms with the same slot conflict)
	loc     string // position without keys / value (alternatives for value simplification)
	entry   string // for bare entries: the entry position; other atoms below it make the bare atom redundant
	shape   string
	exp     []string // expected data-tree paths (canonical) this atom may emit
	leafExp []string // the paths of the leaf itself
	entries []string // positions of the list entries on the way, outermost first
}

type c24Root struct {
	name   string
	mt     protoreflect.MessageType
	info   *c24Msg
	prefix []string
	atoms  []*c24Atom
	byName map[string]*c24Atom
	bySlot map[string]*c24Atom
	lists  []c24ListAt // supported lists reachable without passing another list (for the nil-member probe)
}

type c24ListAt struct {
	steps []c24Step
	f     *c24Field
}

const c24Meta = `x/y[k=v]\z`

func c24StrVals() []c24Val {
	mk := func(s, cls string) c24Val {
		return c24Val{repr: fmt.Sprintf("%q", s), cls: cls, set: func(cur protoreflect.Message, fd protoreflect.FieldDescriptor) {
			cur.Set(fd, protoreflect.ValueOfMessage((&wpb.StringValue{Value: s}).ProtoReflect()))
		}}
	}
	return []c24Val{mk("a", "plain"), mk("", "empty"), mk(c24Meta, "meta")}
}

func c24UintVals() []c24Val {
	mk := func(u uint64, cls string) c24Val {
		return c24Val{repr: fmt.Sprint(u), cls: cls, set: func(cur protoreflect.Message, fd protoreflect.FieldDescriptor) {
			cur.Set(fd, protoreflect.ValueOfMessage((&wpb.UintValue{Value: u}).ProtoReflect()))
		}}
	}
	return []c24Val{mk(1, "pos"), mk(0, "zero"), mk(math.MaxUint64, "max")}
}

func c24BytesVals() []c24Val {
	mk := func(b []byte, cls string) c24Val {
		return c24Val{repr: fmt.Sprintf("%x", b), cls: cls, set: func(cur protoreflect.Message, fd protoreflect.FieldDescriptor) {
			cur.Set(fd, protoreflect.ValueOfMessage((&wpb.BytesValue{Value: append([]byte{}, b...)}).ProtoReflect()))
		}}
	}
	return []c24Val{mk([]byte{1}, "plain"), mk([]byte{}, "empty"), mk([]byte{0, 255, '/'}, "bin")}
}

func c24EnumVals(ed protoreflect.EnumDescriptor) []c24Val {
	named := c24EnumNamed(ed)
	pick := []protoreflect.EnumValueDescriptor{named[0]}
	if len(named) > 1 {
		pick = append(pick, named[len(named)-1])
	}
	var out []c24Val
	for _, v := range pick {
		n := v.Number()
		out = append(out, c24Val{repr: string(v.Name()), cls: "enum", set: func(cur protoreflect.Message, fd protoreflect.FieldDescriptor) {
			cur.Set(fd, protoreflect.ValueOfEnum(n))
		}})
	}
	return out
}

func c24LLVals(kind string) []c24Val {
	mk := func(repr, cls string, elems ...proto.Message) c24Val {
		return c24Val{repr: repr, cls: cls, set: func(cur protoreflect.Message, fd protoreflect.FieldDescriptor) {
			l := cur.Mutable(fd).List()
			for _, e := range elems {
				l.Append(protoreflect.ValueOfMessage(proto.Clone(e).ProtoReflect()))
			}
		}}
	}
	s := func(v string) proto.Message { return &wpb.StringValue{Value: v} }
	u := func(v uint64) proto.Message { return &wpb.UintValue{Value: v} }
	b := func(v bool) proto.Message { return &wpb.BoolValue{Value: v} }
	i := func(v int64) proto.Message { return &wpb.IntValue{Value: v} }
	by := func(v ...byte) proto.Message { return &wpb.BytesValue{Value: v} }
	switch kind {
	case "ll-str":
		return []c24Val{mk(`["a"]`, "one", s("a")), mk(`["b","a"]`, "two", s("b"), s("a")),
			mk(`["",meta]`, "meta", s(""), s(c24Meta)), mk(`["a","a"]`, "dup", s("a"), s("a"))}
	case "ll-uint":
		return []c24Val{mk("[1]", "one", u(1)), mk("[max,0]", "two", u(math.MaxUint64), u(0))}
	case "ll-bool":
		return []c24Val{mk("[true]", "one", b(true)), mk("[false,true]", "two", b(false), b(true))}
	case "ll-int":
		return []c24Val{mk("[1]", "one", i(1)), mk("[-1,min,max,0]", "many", i(-1), i(math.MinInt64), i(math.MaxInt64), i(0))}
	case "ll-bytes":
		return []c24Val{mk("[01]", "one", by(1)), mk("[,00ff]", "two", by(), by(0, 255))}
	}
	return nil
}

type c24UElem struct {
	fd  protoreflect.FieldDescriptor // nil: element left at the proto3 default of its members
	val protoreflect.Value
}

func c24UnionVals(f *c24Field) []c24Val {
	mk := func(repr, cls string, elems ...c24UElem) c24Val {
		return c24Val{repr: repr, cls: cls, set: func(cur protoreflect.Message, fd protoreflect.FieldDescriptor) {
			l := cur.Mutable(fd).List()
			for _, e := range elems {
				m := l.NewElement().Message()
				if e.fd != nil {
					m.Set(e.fd, e.val)
				}
				l.Append(protoreflect.ValueOfMessage(m))
			}
		}}
	}
	var out []c24Val
	var all []c24UElem
	var allRepr []string
	for _, mf := range f.members {
		var e c24UElem
		var r string
		switch mf.Kind() {
		case protoreflect.StringKind:
			e, r = c24UElem{mf, protoreflect.ValueOfString("a")}, `str:"a"`
		case protoreflect.Uint64Kind:
			e, r = c24UElem{mf, protoreflect.ValueOfUint64(5)}, "u64:5"
		case protoreflect.BoolKind:
			e, r = c24UElem{mf, protoreflect.ValueOfBool(true)}, "bool:true"
		case protoreflect.EnumKind:
			v := c24EnumNamed(mf.Enum())
			if len(v) == 0 {
				continue
			}
			e, r = c24UElem{mf, protoreflect.ValueOfEnum(v[len(v)-1].Number())}, "enum:"+string(v[len(v)-1].Name())
		}
		out = append(out, mk("["+r+"]", "one-"+mf.Kind().String(), e))
		all = append(all, e)
		allRepr = append(allRepr, r)
	}
	if len(all) > 1 {
		out = append(out, mk("["+strings.Join(allRepr, ",")+"]", "mixed", all...))
	}
	for _, mf := range f.members {
		switch mf.Kind() {
		case protoreflect.Uint64Kind:
			out = append(out, mk("[u64:max,u64:1]", "two-uint64", c24UElem{mf, protoreflect.ValueOfUint64(math.MaxUint64)}, c24UElem{mf, protoreflect.ValueOfUint64(1)}))
		case protoreflect.StringKind:
			out = append(out, mk("[str:meta]", "meta-string", c24UElem{mf, protoreflect.ValueOfString(c24Meta)}))
		}
	}
	// An element whose member holds the proto3 default (uint 0, "", false): the generated union message
	// has no presence for scalars, so this is the empty element message.
	out = append(out, mk("[default-valued-member]", "zero-elem", c24UElem{}))
	return out
}

func c24KeyVals(k c24Key) []c24KV {
	switch k.kind {
	case "str":
		var out []c24KV
		for _, s := range []struct{ v, cls string }{{"k", "plain"}, {"", "empty"}, {`a/b]c=d\`, "meta"}} {
			out = append(out, c24KV{name: k.name, fd: k.fd, val: protoreflect.ValueOfString(s.v), str: s.v, cls: s.cls})
		}
		return out
	default:
		var out []c24KV
		for _, s := range []struct {
			v   uint64
			cls string
		}{{1, "pos"}, {0, "zero"}, {math.MaxUint64, "max"}} {
			out = append(out, c24KV{name: k.name, fd: k.fd, val: protoreflect.ValueOfUint64(s.v), str: fmt.Sprint(s.v), cls: s.cls})
		}
		return out
	}
}

// key tuples: the i-th value of every key (no product is needed for the single-key lists of the
// test protos; multi-key lists get the diagonal plus the first key varied).
func c24KeyTuples(f *c24Field) [][]c24KV {
	doms := make([][]c24KV, len(f.keys))
	for i, k := range f.keys {
		doms[i] = c24KeyVals(k)
	}
	var out [][]c24KV
	for i := 0; i < 3; i++ {
		var t []c24KV
		for _, d := range doms {
			t = append(t, d[i])
		}
		out = append(out, t)
	}
	if len(doms) > 1 {
		t := []c24KV{doms[0][1]}
		for _, d := range doms[1:] {
			t = append(t, d[0])
		}
		out = append(out, t)
	}
	return out
}

func c24CanonElems(names []string, keys map[int]map[string]string) string {
	var b strings.Builder
	for i, n := range names {
		b.WriteString("/" + n)
		if ks := keys[i]; len(ks) > 0 {
			var kn []string
			for k := range ks {
				kn = append(kn, k)
			}
			sort.Strings(kn)
			for _, k := range kn {
				fmt.Fprintf(&b, "[%s=%q]", k, ks[k])
			}
		}
	}
	return b.String()
}

func c24CanonPath(p *gpb.Path) (withKeys, schema string) {
	names := make([]string, len(p.GetElem()))
	keys := map[int]map[string]string{}
	for i, e := range p.GetElem() {
		names[i] = e.GetName()
		if len(e.GetKey()) > 0 {
			keys[i] = e.GetKey()
		}
	}
	return c24CanonElems(names, keys), c24CanonElems(names, nil)
}

const c24MaxDepth = 6

func (r *c24Root) gen(m *c24Msg, steps []c24Step, depth int) {
	if depth > c24MaxDepth {
		return
	}
	// keys of the lists traversed so far, by path element index
	keysAt := func(st []c24Step) map[int]map[string]string {
		ks := map[int]map[string]string{}
		for _, s := range st {
			if s.keys != nil {
				mm := map[string]string{}
				for _, kv := range s.keys {
					mm[kv.name] = kv.str
				}
				ks[len(s.f.ann[0])-1] = mm
			}
		}
		return ks
	}
	posOf := func(st []c24Step, withKeys bool) (string, string) {
		var name, shape []string
		for _, s := range st {
			n := string(s.f.fd.Name())
			if s.keys == nil {
				name = append(name, n)
				shape = append(shape, "C")
				continue
			}
			var kk, kc []string
			for _, kv := range s.keys {
				kk = append(kk, fmt.Sprintf("%s=%q", kv.name, kv.str))
				kc = append(kc, kv.fd.Kind().String()+"-"+kv.cls)
			}
			if withKeys {
				n += "[" + strings.Join(kk, ",") + "]"
			}
			name = append(name, n)
			shape = append(shape, fmt.Sprintf("L%d[%s]", r.relLen(s.f.ann[0], st, s), strings.Join(kc, ",")))
		}
		return strings.Join(name, "/"), strings.Join(shape, "/")
	}
	add := func(st []c24Step, leaf *c24Field, v c24Val, vi int) {
		a := &c24Atom{idx: len(r.atoms), steps: append([]c24Step{}, st...), leaf: leaf, val: v}
		mk := 0
		for _, s := range st {
			if s.ki > mk {
				mk = s.ki
			}
		}
		switch {
		case vi == 0 && mk <= 1:
			a.level = 0
		case vi == 0 || mk == 0:
			a.level = 1
		default:
			a.level = 2
		}
		pos, shape := posOf(st, true)
		loc, _ := posOf(st, false)
		ks := keysAt(st)
		// key leaves of every list entry on the way
		for i, s := range st {
			if s.keys == nil {
				continue
			}
			sub := keysAt(st[:i+1])
			for _, k := range s.f.keys {
				for _, an := range k.ann {
					a.exp = append(a.exp, c24CanonElems(an, sub))
				}
			}
		}
		for i, s := range st {
			if s.keys != nil {
				ep, _ := posOf(st[:i+1], true)
				a.entries = append(a.entries, ep+"/")
			}
		}
		if leaf == nil {
			a.Name, a.slot, a.loc, a.entry, a.shape = pos, pos+"/", loc+"/", pos+"/", shape
		} else {
			ln := string(leaf.fd.Name())
			a.Name = strings.TrimPrefix(pos+"/"+ln+"="+v.repr, "/")
			a.slot, a.loc = pos+"/"+ln, loc+"/"+ln
			a.shape = strings.TrimPrefix(shape+"/", "/") + fmt.Sprintf("%s@%d=%s", leaf.kind, r.relLenLeaf(leaf.ann[0], st), v.cls)
			for _, an := range leaf.ann {
				a.exp = append(a.exp, c24CanonElems(an, ks))
				a.leafExp = append(a.leafExp, c24CanonElems(an, ks))
			}
		}
		r.atoms = append(r.atoms, a)
	}
	for _, f := range m.fields {
		switch f.kind {
		case "str":
			for vi, v := range c24StrVals() {
				add(steps, f, v, vi)
			}
		case "uint":
			for vi, v := range c24UintVals() {
				add(steps, f, v, vi)
			}
		case "bytes":
			for vi, v := range c24BytesVals() {
				add(steps, f, v, vi)
			}
		case "enum":
			for vi, v := range c24EnumVals(f.fd.Enum()) {
				add(steps, f, v, vi)
			}
		case "ll-str", "ll-uint", "ll-bool", "ll-int", "ll-bytes":
			for vi, v := range c24LLVals(f.kind) {
				add(steps, f, v, vi)
			}
		case "llu":
			for vi, v := range c24UnionVals(f) {
				add(steps, f, v, vi)
			}
		case "container":
			if f.child.malformed != "" {
				continue
			}
			r.gen(f.child, append(append([]c24Step{}, steps...), c24Step{f: f}), depth+1)
		case "list":
			if f.child.malformed != "" {
				continue
			}
			underList := false
			for _, s := range steps {
				if s.keys != nil {
					underList = true
				}
			}
			if !underList {
				r.lists = append(r.lists, c24ListAt{steps: append([]c24Step{}, steps...), f: f})
			}
			for ki, t := range c24KeyTuples(f) {
				st := append(append([]c24Step{}, steps...), c24Step{f: f, keys: t, ki: ki})
				add(st, nil, c24Val{}, 0)
				r.gen(f.child, st, depth+1)
			}
		}
	}
}

// relLen: number of path elements the list's schema path adds below the enclosing message's path
// (2 in path-compressed OpenConfig protos: surrounding container + list).
func (r *c24Root) relLen(ann []string, st []c24Step, self c24Step) int {
	base := len(r.prefix)
	for _, s := range st {
		if s.f == self.f {
			break
		}
		base = len(s.f.ann[0])
	}
	return len(ann) - base
}

func (r *c24Root) relLenLeaf(ann []string, st []c24Step) int {
	base := len(r.prefix)
	if len(st) > 0 {
		base = len(st[len(st)-1].f.ann[0])
	}
	return len(ann) - base
}

func (a *c24Atom) apply(root protoreflect.Message) {
	cur := root
	for _, s := range a.steps {
		if s.keys == nil {
			cur = cur.Mutable(s.f.fd).Message()
			continue
		}
		l := cur.Mutable(s.f.fd).List()
		var entry protoreflect.Message
		for i := 0; i < l.Len(); i++ {
			e := l.Get(i).Message()
			same := true
			for _, kv := range s.keys {
				if !e.Get(kv.fd).Equal(kv.val) {
					same = false
				}
			}
			if same {
				entry = e
				break
			}
		}
		if entry == nil {
			entry = l.NewElement().Message()
			for _, kv := range s.keys {
				entry.Set(kv.fd, kv.val)
			}
			l.Append(protoreflect.ValueOfMessage(entry))
		}
		cur = entry.Mutable(s.f.member).Message()
	}
	if a.leaf != nil {
		a.val.set(cur, a.leaf.fd)
	}
}

// c24Compatible reports whether two atoms can be combined into one message, and whether the
// combination is redundant (a bare list entry plus something inside that entry).
func c24Compatible(a, b *c24Atom) (ok, redundant bool) {
	if a.slot == b.slot {
		return false, false
	}
	if a.leaf == nil && strings.HasPrefix(b.slot, a.entry) {
		return true, true
	}
	if b.leaf == nil && strings.HasPrefix(a.slot, b.entry) {
		return true, true
	}
	return true, false
}

// ---------------------------------------------------------------------------------------------
// roots

var (
	c24Once     sync.Once
	c24RootList []*c24Root
	c24Excluded map[string]int // reason -> count (static classification)
	c24ExclList []string
)

func c24AllMessages(fd protoreflect.FileDescriptor) []protoreflect.MessageDescriptor {
	var out []protoreflect.MessageDescriptor
	var walk func(ms protoreflect.MessageDescriptors)
	walk = func(ms protoreflect.MessageDescriptors) {
		for i := 0; i < ms.Len(); i++ {
			out = append(out, ms.Get(i))
			walk(ms.Get(i).Messages())
		}
	}
	walk(fd.Messages())
	return out
}

func c24Roots() []*c24Root {
	c24Once.Do(func() {
		c24Excluded = map[string]int{}
		excl := func(reason, what string) {
			c24Excluded[reason]++
			c24ExclList = append(c24ExclList, reason+" "+what)
		}
		files := []protoreflect.FileDescriptor{
			(&epb.Root{}).ProtoReflect().Descriptor().ParentFile(),
			(&aftpb.Device{}).ProtoReflect().Descriptor().ParentFile(),
		}
		cl := &c24Classifier{msgs: map[protoreflect.FullName]*c24Msg{}}
		var all []protoreflect.MessageDescriptor
		for _, f := range files {
			all = append(all, c24AllMessages(f)...)
		}
		for _, md := range all {
			cl.msg(md)
		}
		// roles of messages: list-key messages and union messages are not data-tree nodes of their own;
		// the prefix of a message is the schema path of the (first) field that refers to it.
		role := map[protoreflect.FullName]string{}
		prefix := map[protoreflect.FullName][]string{}
		for _, md := range all {
			for _, f := range cl.msgs[md.FullName()].fields {
				if f.fd.Kind() != protoreflect.MessageKind || f.fd.IsMap() {
					continue
				}
				if _, isW := c24Wrappers[f.fd.Message().FullName()]; isW {
					continue
				}
				tn := f.fd.Message().FullName()
				switch {
				case f.kind == "container":
					if _, ok := prefix[tn]; !ok && tn != md.FullName() {
						prefix[tn] = f.ann[0]
					}
				case f.kind == "list":
					role[tn] = "key-message"
					if _, ok := prefix[f.member.Message().FullName()]; !ok {
						prefix[f.member.Message().FullName()] = f.ann[0]
					}
				case f.fd.IsList():
					// union element messages, key messages of unsupported / malformed lists
					role[tn] = "element-message"
					km := f.fd.Message()
					for i := 0; i < km.Fields().Len(); i++ {
						if kf := km.Fields().Get(i); kf.Kind() == protoreflect.MessageKind && !kf.IsList() && !kf.IsMap() {
							if _, isW := c24Wrappers[kf.Message().FullName()]; !isW {
								if _, ok := prefix[kf.Message().FullName()]; !ok && len(f.ann) > 0 {
									prefix[kf.Message().FullName()] = f.ann[0]
								}
							}
						}
					}
				}
			}
		}
		for _, md := range all {
			info := cl.msgs[md.FullName()]
			name := string(md.FullName())
			switch {
			case role[md.FullName()] == "key-message" || role[md.FullName()] == "element-message":
				continue // not a message that stands for a data-tree node
			case info.malformed != "":
				excl("excluded-message-not-ygen-shaped("+strings.SplitN(info.malformed, ":", 2)[1]+")", name)
				continue
			}
			mt, err := protoregistry.GlobalTypes.FindMessageByName(md.FullName())
			if err != nil {
				excl("excluded-message-no-go-type", name)
				continue
			}
			r := &c24Root{name: name, mt: mt, info: info, prefix: prefix[md.FullName()], byName: map[string]*c24Atom{}, bySlot: map[string]*c24Atom{}}
			r.gen(info, nil, 0)
			for _, a := range r.atoms {
				r.byName[a.Name] = a
				r.bySlot[a.slot] = a
			}
			for _, f := range info.fields {
				if f.kind == "unsupported" {
					excl("excluded-field-unsupported("+f.why+")", name+"."+string(f.fd.Name()))
				}
				for _, s := range f.skipped {
					excl("excluded-union-member("+strings.SplitN(s, ":", 2)[1]+")", name+"."+string(f.fd.Name())+"."+strings.SplitN(s, ":", 2)[0])
				}
			}
			if len(r.atoms) == 0 {
				excl("excluded-message-without-supported-field", name)
				continue
			}
			c24RootList = append(c24RootList, r)
		}
	})
	return c24RootList
}

func (r *c24Root) kind() string {
	if len(r.prefix) == 0 {
		return "root"
	}
	return "sub"
}

func (r *c24Root) opts() []protomap.UnmapOpt {
	if len(r.prefix) == 0 {
		return nil
	}
	p := &gpb.Path{}
	for _, e := range r.prefix {
		p.Elem = append(p.Elem, &gpb.PathElem{Name: e})
	}
	return []protomap.UnmapOpt{protomap.ProtobufMessagePrefix(p)}
}

// ---------------------------------------------------------------------------------------------
// the oracle

type c24Case struct {
	Root  string   `json:"root"`
	Atoms []string `json:"atoms"`
	Probe string   `json:"probe,omitempty"`
}

func c24ErrClass(err error, table [][2]string) string {
	s := err.Error()
	for _, t := range table {
		if strings.Contains(s, t[0]) {
			return t[1]
		}
	}
	return "other"
}

var c24UnmapErrs = [][2]string{
	{"PANIC", "panic"},
	{"got non-uint value for uint field", "non-uint"},
	{"got non-string value", "non-string"},
	{"got non-byte slice", "non-bytes"},
	{"for repeated", "leaflist-type"},
	{"for a leaf-list of unions", "union-input"},
	{"for union", "union-elem"},
	{"in union", "union-elem"},
	{"did not map path", "unmapped-path"},
	{"does not match the supplied prefix", "annotation-prefix"},
	{"missing key", "missing-key"},
	{"received additional keys", "extra-keys"},
	{"does not have key values", "no-key-values"},
	{"absolute paths must be used", "not-absolute"},
	{"enumeration", "enum"},
	{"unsupported or invalid kind", "key-kind"},
	{"invalid uint64 value", "key-parse"},
}

var c24PathsErrs = [][2]string{
	{"PANIC", "panic"},
	{"nil list member", "nil-member"},
	{"decimal64", "decimal64"},
	{"unknown type in protobuf", "unknown-wrapper"},
	{"multiple populated fields", "union-multi"},
	{"unsupported kind", "union-kind"},
	{"cannot map list key", "key"},
	{"invalid annotation", "annotation"},
}

func c24Paths(m proto.Message) (out map[*gpb.Path]interface{}, err error) {
	defer recoverTo(&err)
	return protomap.PathsFromProto(m)
}

func c24Unmap(m proto.Message, vals map[*gpb.Path]interface{}, opts []protomap.UnmapOpt) (err error) {
	defer recoverTo(&err)
	return protomap.ProtoFromPaths(m, vals, opts...)
}

// c24SortLists orders the entries of every keyed list by key: YANG keyed lists are sets, and
// ProtoFromPaths creates the entries in Go map iteration order.
func c24SortLists(info *c24Msg, m protoreflect.Message, depth int) {
	if depth > c24MaxDepth+2 {
		return
	}
	for _, f := range info.fields {
		switch f.kind {
		case "container":
			if m.Has(f.fd) {
				c24SortLists(f.child, m.Get(f.fd).Message(), depth+1)
			}
		case "list":
			if !m.Has(f.fd) {
				continue
			}
			l := m.Mutable(f.fd).List()
			type ent struct {
				k string
				v protoreflect.Value
			}
			var es []ent
			for i := 0; i < l.Len(); i++ {
				e := l.Get(i).Message()
				var ks []string
				for _, k := range f.keys {
					ks = append(ks, fmt.Sprintf("%q", e.Get(k.fd).String()))
				}
				if e.Has(f.member) {
					c24SortLists(f.child, e.Get(f.member).Message(), depth+1)
				}
				es = append(es, ent{strings.Join(ks, ","), l.Get(i)})
			}
			sort.SliceStable(es, func(i, j int) bool { return es[i].k < es[j].k })
			l.Truncate(0)
			for _, e := range es {
				l.Append(e.v)
			}
		}
	}
}

// c24Flatten lists the populated leaves of a message (generic protoreflect walk), to describe how
// two messages differ.
func c24Flatten(m protoreflect.Message, pfx string, out map[string]string) {
	out[pfx+"{}"] = "present"
	m.Range(func(fd protoreflect.FieldDescriptor, v protoreflect.Value) bool {
		n := pfx + "/" + string(fd.Name())
		switch {
		case fd.IsList():
			l := v.List()
			for i := 0; i < l.Len(); i++ {
				if fd.Kind() == protoreflect.MessageKind {
					c24Flatten(l.Get(i).Message(), fmt.Sprintf("%s#%d", n, i), out)
				} else {
					out[fmt.Sprintf("%s#%d", n, i)] = fmt.Sprintf("%v", l.Get(i).Interface())
				}
			}
		case fd.Kind() == protoreflect.MessageKind:
			c24Flatten(v.Message(), n, out)
		default:
			out[n] = fmt.Sprintf("%v", v.Interface())
		}
		return true
	})
}

func c24DiffClass(a, b protoreflect.Message) (string, string) {
	fa, fb := map[string]string{}, map[string]string{}
	c24Flatten(a, "", fa)
	c24Flatten(b, "", fb)
	var lost, extra, changed []string
	for k, v := range fa {
		if w, ok := fb[k]; !ok {
			lost = append(lost, k)
		} else if v != w {
			changed = append(changed, fmt.Sprintf("%s:%s->%s", k, v, w))
		}
	}
	for k := range fb {
		if _, ok := fa[k]; !ok {
			extra = append(extra, k)
		}
	}
	sort.Strings(lost)
	sort.Strings(extra)
	sort.Strings(changed)
	var cls []string
	if len(lost) > 0 {
		cls = append(cls, "lost")
	}
	if len(extra) > 0 {
		cls = append(cls, "extra")
	}
	if len(changed) > 0 {
		cls = append(cls, "changed")
	}
	if len(cls) == 0 {
		cls = []string{"other"}
	}
	return strings.Join(cls, "+"), fmt.Sprintf("lost=%v extra=%v changed=%v", lost, extra, changed)
}

func (r *c24Root) build(atoms []*c24Atom) proto.Message {
	m := r.mt.New()
	for _, a := range atoms {
		a.apply(m)
	}
	return m.Interface()
}

// c24Once1 runs both directions once. clause "" = law holds ("ok" / "ok-modulo-list-order" in okKind).
func (r *c24Root) once(atoms []*c24Atom) (clause, okKind, detail string) {
	m := r.build(atoms)
	orig := proto.Clone(m)
	paths, err := c24Paths(m)
	if err != nil {
		return "paths-error(" + c24ErrClass(err, c24PathsErrs) + ")", "", fmt.Sprintf("PathsFromProto failed: %v", err)
	}
	exp, expSchema := map[string]bool{}, map[string]bool{}
	for _, a := range atoms {
		for _, e := range a.exp {
			exp[e] = true
		}
	}
	for e := range exp {
		expSchema[c24StripKeys(e)] = true
	}
	var rendered []string
	for p, v := range paths {
		wk, sch := c24CanonPath(p)
		rendered = append(rendered, fmt.Sprintf("%s=%v(%T)", wk, v, v))
		if !expSchema[sch] {
			return "path-schema", "", fmt.Sprintf("PathsFromProto emitted %s; its schema path %s is not an annotated schema path of a populated field (expected one of %v)", wk, sch, c24Keys(expSchema))
		}
		if !exp[wk] {
			return "path-keys", "", fmt.Sprintf("PathsFromProto emitted %s, which is not the data-tree path of a populated field (expected one of %v)", wk, c24Keys(exp))
		}
	}
	sort.Strings(rendered)
	if !proto.Equal(m, orig) {
		return "input-mutated", "", "PathsFromProto changed its argument"
	}
	clause, okKind, detail = r.unmapAndCompare(paths, orig, rendered)
	if clause == "unmap-error(non-uint)" || clause == "unmap-error(leaflist-type)" {
		// Known type mismatches between the two directions (uint64 vs uint, []interface{} vs typed
		// slices) end the execution early. To see what lies behind them the case is executed again
		// with exactly these value types converted; a failure of that execution is reported with
		// the suffix @bridged, otherwise the original failure stands.
		kinds := map[string]string{}
		for _, a := range atoms {
			if a.leaf != nil {
				for _, e := range a.leafExp {
					kinds[e] = a.leaf.kind
				}
			}
		}
		bridged := map[*gpb.Path]interface{}{}
		for p, v := range paths {
			wk, _ := c24CanonPath(p)
			bridged[p] = c24Bridge(kinds[wk], v)
		}
		if bc, _, bd := r.unmapAndCompare(bridged, orig, rendered); bc != "" {
			return bc + "@bridged", "", "with uint64->uint and []interface{}->typed slice conversion of the values: " + bd
		}
	}
	return clause, okKind, detail
}

func c24Bridge(kind string, v interface{}) interface{} {
	switch kind {
	case "uint":
		if u, ok := v.(uint64); ok {
			return uint(u)
		}
	case "ll-str", "ll-uint", "ll-bool", "ll-int", "ll-bytes":
		l, ok := v.([]interface{})
		if !ok {
			return v
		}
		var ss []string
		var us []uint64
		var bs []bool
		var is []int64
		var ys [][]byte
		for _, e := range l {
			switch t := e.(type) {
			case string:
				ss = append(ss, t)
			case uint64:
				us = append(us, t)
			case bool:
				bs = append(bs, t)
			case int64:
				is = append(is, t)
			case []byte:
				ys = append(ys, t)
			default:
				return v
			}
		}
		switch kind {
		case "ll-str":
			if len(ss) == len(l) {
				return ss
			}
		case "ll-uint":
			if len(us) == len(l) {
				return us
			}
		case "ll-bool":
			if len(bs) == len(l) {
				return bs
			}
		case "ll-int":
			if len(is) == len(l) {
				return is
			}
		case "ll-bytes":
			if len(ys) == len(l) {
				return ys
			}
		}
	}
	return v
}

func (r *c24Root) unmapAndCompare(paths map[*gpb.Path]interface{}, orig proto.Message, rendered []string) (clause, okKind, detail string) {
	out := r.mt.New().Interface()
	if err := c24Unmap(out, paths, r.opts()); err != nil {
		return "unmap-error(" + c24ErrClass(err, c24UnmapErrs) + ")", "", fmt.Sprintf("ProtoFromPaths failed: %v; paths=%v", err, rendered)
	}
	if proto.Equal(out, orig) {
		return "", "ok", ""
	}
	so, sm := proto.Clone(out).ProtoReflect(), proto.Clone(orig).ProtoReflect()
	c24SortLists(r.info, so, 0)
	c24SortLists(r.info, sm, 0)
	if proto.Equal(so.Interface(), sm.Interface()) {
		return "", "ok-modulo-list-entry-order", ""
	}
	cls, d := c24DiffClass(sm, so)
	return "roundtrip-differs(" + cls + ")", "", fmt.Sprintf("%s; paths=%v", d, rendered)
}

func c24StripKeys(canon string) string {
	var b strings.Builder
	depth := 0
	inq := false
	for i := 0; i < len(canon); i++ {
		ch := canon[i]
		switch {
		case inq:
			if ch == '\\' {
				i++
			} else if ch == '"' {
				inq = false
			}
		case ch == '"':
			inq = true
		case ch == '[':
			depth++
		case ch == ']':
			depth--
		case depth == 0:
			b.WriteByte(ch)
		}
	}
	return b.String()
}

func c24Keys(m map[string]bool) []string {
	var out []string
	for k := range m {
		out = append(out, k)
	}
	sort.Strings(out)
	return out
}

// check runs the law reps times (the code under test ranges over Go maps); differing answers are a
// clause of their own.
func (r *c24Root) check(atoms []*c24Atom, reps int) (clause, okKind, detail string) {
	seen := map[string]string{}
	var order []string
	for i := 0; i < reps; i++ {
		cl, ok, d := r.once(atoms)
		key := cl
		if cl == "" {
			key = "ok"
			okKind = ok
		}
		if _, dup := seen[key]; !dup {
			seen[key] = d
			order = append(order, key)
		}
	}
	if len(order) == 1 {
		if order[0] == "ok" {
			return "", okKind, ""
		}
		return order[0], "", seen[order[0]]
	}
	sort.Strings(order)
	var ds []string
	for _, k := range order {
		ds = append(ds, k+": "+seen[k])
	}
	return "unstable(" + strings.Join(order, "|") + ")", "", fmt.Sprintf("%d executions of the same case gave different outcomes: %s", reps, strings.Join(ds, " ;; "))
}

func c24Names(atoms []*c24Atom) []string {
	out := make([]string, len(atoms))
	for i, a := range atoms {
		out[i] = a.Name
	}
	return out
}

func (r *c24Root) sig(clause string, atoms []*c24Atom) string {
	var sh []string
	for _, a := range atoms {
		sh = append(sh, a.shape)
	}
	return c24Norm(clause) + ":" + r.kind() + ":" + strings.Join(sh, "+")
}

// simplify replaces the value / keys of each atom by the simplest alternative at the same position
// that still fails with the same clause, so the signature names the smallest failing input.
func (r *c24Root) simplify(atoms []*c24Atom, clause string, reps int) ([]*c24Atom, string) {
	cur := append([]*c24Atom{}, atoms...)
	_, _, detail := r.check(cur, reps)
	try := func(i int, alt *c24Atom) bool {
		cand := append([]*c24Atom{}, cur...)
		cand[i] = alt
		for x := range cand {
			for y := x + 1; y < len(cand); y++ {
				if ok, red := c24Compatible(cand[x], cand[y]); !ok || red {
					return false
				}
			}
		}
		if cl, _, d := r.check(cand, reps); cl != "" && (c24Norm(cl) == c24Norm(clause) || (strings.HasPrefix(c24Norm(clause), "unstable(") && c24Explains(cl, clause))) {
			cur, detail = cand, d
			return true
		}
		return false
	}
	// an atom inside a list entry -> the bare entry (innermost first)
	for i := range cur {
		if cur[i].leaf == nil {
			continue
		}
		for e := len(cur[i].entries) - 1; e >= 0; e-- {
			if bare := r.bySlot[cur[i].entries[e]]; bare != nil && try(i, bare) {
				break
			}
		}
	}
	// simpler keys / value at the same position
	for i := range cur {
		for _, alt := range r.atoms {
			if alt.idx >= cur[i].idx {
				break
			}
			if alt.loc == cur[i].loc && try(i, alt) {
				break
			}
		}
	}
	sort.Slice(cur, func(i, j int) bool { return cur[i].idx < cur[j].idx })
	return cur, detail
}

// ---------------------------------------------------------------------------------------------
// the run

type c24Local struct {
	outcomes map[string]int64
	evals    int64
	sizes    [4]int64
}

type c24Res struct {
	clause string
	sig    string
}

// c24Components splits an "unstable(a|b)" clause into the outcomes seen; other clauses are their own
// single component.
func c24Components(clause string) []string {
	clause = strings.ReplaceAll(clause, "@bridged", "")
	parts := []string{clause}
	if strings.HasPrefix(clause, "unstable(") && strings.HasSuffix(clause, ")") {
		parts = strings.Split(clause[len("unstable("):len(clause)-1], "|")
	}
	seen := map[string]bool{}
	var out []string
	for _, p := range parts {
		if strings.HasPrefix(p, "roundtrip-differs(") {
			p = "roundtrip-differs" // which leaves were lost / extra / changed stays in the detail
		}
		if !seen[p] {
			seen[p] = true
			out = append(out, p)
		}
	}
	sort.Strings(out)
	return out
}

// c24Norm is the clause as used in signatures: the way two messages differ and the @bridged marker
// of map-order dependent cases are dropped so that one defect keeps one name.
func c24Norm(clause string) string {
	comps := c24Components(clause)
	if len(comps) == 1 {
		if strings.HasSuffix(clause, "@bridged") && !strings.HasPrefix(clause, "unstable(") {
			return comps[0] + "@bridged"
		}
		return comps[0]
	}
	return "unstable(" + strings.Join(comps, "|") + ")"
}

// c24Explains: a failing sub-case explains a failing case when they share a failure outcome (the
// cases whose outcome depends on map order show only some of their outcomes in a given run).
func c24Explains(sub, clause string) bool {
	if sub == "" {
		return false
	}
	for _, a := range c24Components(sub) {
		for _, b := range c24Components(clause) {
			if a == b && a != "ok" {
				return true
			}
		}
	}
	return false
}

func (r *c24Root) level(l int) []int {
	var out []int
	for _, a := range r.atoms {
		if a.level <= l {
			out = append(out, a.idx)
		}
	}
	return out
}

func runC24(c *core.Ctx) {
	c.Level = "exploration"
	defer debug.SetGCPercent(debug.SetGCPercent(400)) // the code under test is allocation-bound
	k := kFor(c, 2, 3)
	pairLevel := kFor(c, 1, 2)
	const tripleLevel = 1
	reps := [4]int{2, 16, 3, 1} // executions per case, by number of atoms
	c.Rule = fmt.Sprintf("every message type of protomap/testdata/exschemapath and protomap/integration_tests/testdata/gribi_aft that stands for a data-tree node and is ygen-shaped (classified from the descriptors and yext annotations, independently of protomap) is taken as the message m, on its own (with ProtobufMessagePrefix = its schema path when it is not a root). Atom = one supported field set (string/uint/bytes wrapper, enum, leaf-list of string/uint/bool/int/bytes, leaf-list of union with string/uint64/bool/enum members) at a position reached through containers and keyed-list entries (string / uint64 keys, 3 key values each: plain, \"\"/0, and a string with / ] = \\ resp. uint64 max; a bare entry is an atom too); values from 2-7 value domains incl. \"\", 0, uint64 max, empty bytes, duplicates, a string with path metacharacters, a union element holding a proto3 default. Alphabets: full = all keys x all values; core = all values under the first key value, first value under the others. Enumerated: the empty message, every single atom (full), every compatible pair (%s alphabet)%s. Each case is executed %v times (by size 0..3; the code under test ranges over Go maps) and judged by: PathsFromProto succeeds and leaves m unchanged; every emitted path is the keyed data-tree path of an annotated schema path of a populated field; ProtoFromPaths into a new message succeeds and the result is proto.Equal to m up to the order of keyed-list entries. Non-trivial = case with >= 1 populated supported field.",
		[]string{"", "core", "full"}[pairLevel], map[bool]string{true: ", every compatible triple (core alphabet)", false: ""}[k >= 3], reps)
	c.R.Assume("message construction by protoreflect, proto.Equal/Clone, proto.GetExtension, and the harness's own reading of the yext.schemapath / leaflist / leaflistunion annotations are trusted")
	c.R.Assume("keyed-list entry order is not significant (YANG system-ordered lists); counted as ok-modulo-list-entry-order")
	roots := c24Roots()
	for reason, n := range c24Excluded {
		for i := 0; i < n; i++ {
			c.R.Outcome(reason)
		}
	}
	c.R.Note("excluded_static", c24ExclList)
	rootNote := map[string]interface{}{}

	for _, r := range roots {
		r := r
		n := len(r.atoms)
		single := make([]c24Res, n)
		var pmu sync.Mutex
		pairs := map[uint64]c24Res{}
		var cases [4]int64
		flush := func(l *c24Local) {
			c.R.Add("evaluations", l.evals)
			pmu.Lock()
			for i := range cases {
				cases[i] += l.sizes[i]
			}
			pmu.Unlock()
			for o, cnt := range l.outcomes {
				for i := int64(0); i < cnt; i++ {
					c.R.Outcome(o)
				}
			}
		}
		// eval judges one case; subs are the results of its proper sub-cases.
		eval := func(l *c24Local, atoms []*c24Atom, subs []c24Res) c24Res {
			l.evals++
			l.sizes[len(atoms)]++
			clause, okKind, _ := r.check(atoms, reps[len(atoms)])
			if len(atoms) > 0 {
				c.R.NonTrivial(r.name + "|" + strings.Join(c24Names(atoms), "|"))
			}
			if clause == "" {
				l.outcomes[okKind]++
				return c24Res{}
			}
			l.outcomes[clause]++
			for _, s := range subs {
				if c24Explains(s.clause, clause) {
					c.R.Violation(s.sig, "(explained by a smaller case)", c24Case{Root: r.name, Atoms: c24Names(atoms)})
					return c24Res{clause, s.sig}
				}
			}
			min, d := r.simplify(atoms, clause, reps[1])
			sig := r.sig(clause, min)
			c.R.Violation(sig, fmt.Sprintf("message %s with %v: %s", r.name, c24Names(min), d), c24Case{Root: r.name, Atoms: c24Names(min)})
			return c24Res{clause, sig}
		}
		{
			l := &c24Local{outcomes: map[string]int64{}}
			eval(l, nil, nil)
			flush(l)
		}
		core.ParallelFor(n, func(i int) {
			l := &c24Local{outcomes: map[string]int64{}}
			single[i] = eval(l, []*c24Atom{r.atoms[i]}, nil)
			flush(l)
		})
		if k >= 2 {
			ix := r.level(pairLevel)
			core.ParallelFor(len(ix), func(x int) {
				if c.Expired() {
					return
				}
				i := ix[x]
				l := &c24Local{outcomes: map[string]int64{}}
				local := map[uint64]c24Res{}
				for _, j := range ix[x+1:] {
					ok, red := c24Compatible(r.atoms[i], r.atoms[j])
					if !ok {
						l.outcomes["skipped-conflicting-atoms"]++
						continue
					}
					if red {
						l.outcomes["skipped-redundant-combination"]++
						continue
					}
					if rs := eval(l, []*c24Atom{r.atoms[i], r.atoms[j]}, []c24Res{single[i], single[j]}); rs.clause != "" {
						local[uint64(i)<<32|uint64(j)] = rs
					}
				}
				pmu.Lock()
				for k, v := range local {
					pairs[k] = v
				}
				pmu.Unlock()
				flush(l)
			})
		}
		if k >= 3 {
			ix := r.level(tripleLevel)
			// work items = (first, second) so that the load is spread evenly
			type ij struct{ x, y int }
			var items []ij
			for x := range ix {
				for y := x + 1; y < len(ix); y++ {
					if ok, red := c24Compatible(r.atoms[ix[x]], r.atoms[ix[y]]); ok && !red {
						items = append(items, ij{x, y})
					}
				}
			}
			core.ParallelFor(len(items), func(w int) {
				if w%64 == 0 && c.Expired() {
					return
				}
				i, j := ix[items[w].x], ix[items[w].y]
				l := &c24Local{outcomes: map[string]int64{}}
				for _, m := range ix[items[w].y+1:] {
					ok1, red1 := c24Compatible(r.atoms[i], r.atoms[m])
					ok2, red2 := c24Compatible(r.atoms[j], r.atoms[m])
					if !ok1 || !ok2 || red1 || red2 {
						continue
					}
					subs := []c24Res{single[i], single[j], single[m],
						pairs[uint64(i)<<32|uint64(j)], pairs[uint64(i)<<32|uint64(m)], pairs[uint64(j)<<32|uint64(m)]}
					eval(l, []*c24Atom{r.atoms[i], r.atoms[j], r.atoms[m]}, subs)
				}
				flush(l)
			})
		}
		// documented error: a list entry whose member message is nil
		for _, la := range r.lists {
			m := r.nilMember(la)
			c.R.Add("evaluations", 1)
			_, err := c24Paths(m)
			switch {
			case err == nil:
				c.R.Outcome("nil-list-member:accepted")
			case strings.Contains(err.Error(), "PANIC"):
				c.R.Outcome("nil-list-member:panic")
				c.R.Violation("paths-error(panic):"+r.kind()+":nil-list-member", fmt.Sprintf("message %s, list %s with an entry whose member is nil: %v", r.name, la.f.fd.Name(), err), c24Case{Root: r.name, Probe: "nil-member:" + string(la.f.fd.FullName())})
			default:
				c.R.Outcome("excluded-nil-list-member(documented error)")
			}
		}
		lv := [3]int{}
		for _, a := range r.atoms {
			lv[a.level]++
		}
		rootNote[r.name] = map[string]interface{}{"prefix": "/" + strings.Join(r.prefix, "/"), "atoms": n,
			"atoms_core": lv[0] + lv[1], "lists": len(r.lists),
			"cases_by_size": map[string]int64{"0": cases[0], "1": cases[1], "2": cases[2], "3": cases[3]}}
	}
	c.R.Note("messages", rootNote)
	c.R.Note("executions_per_case_by_size", reps)
	for _, r := range roots {
		if len(r.atoms) > 20 {
			mid := r.atoms[len(r.atoms)/2]
			c.R.Sample(c24Case{Root: r.name, Atoms: []string{r.atoms[1].Name, mid.Name}})
		}
	}
}

func (r *c24Root) nilMember(la c24ListAt) proto.Message {
	m := r.mt.New()
	cur := m
	for _, s := range la.steps {
		cur = cur.Mutable(s.f.fd).Message()
	}
	lst := cur.Mutable(la.f.fd).List()
	e := lst.NewElement().Message()
	for _, kv := range c24KeyTuples(la.f)[0] {
		e.Set(kv.fd, kv.val)
	}
	lst.Append(protoreflect.ValueOfMessage(e))
	return m.Interface()
}

func replayC24(c *core.Ctx, raw []byte) (bool, string) {
	var cs c24Case
	if err := json.Unmarshal(raw, &cs); err != nil {
		return false, err.Error()
	}
	for _, r := range c24Roots() {
		if r.name != cs.Root {
			continue
		}
		if strings.HasPrefix(cs.Probe, "nil-member:") {
			for _, la := range r.lists {
				if string(la.f.fd.FullName()) != strings.TrimPrefix(cs.Probe, "nil-member:") {
					continue
				}
				_, err := c24Paths(r.nilMember(la))
				return err != nil && strings.Contains(err.Error(), "PANIC"), fmt.Sprint(err)
			}
			return false, "unknown list " + cs.Probe
		}
		var atoms []*c24Atom
		for _, n := range cs.Atoms {
			a := r.byName[n]
			if a == nil {
				return false, "unknown atom " + n
			}
			atoms = append(atoms, a)
		}
		clause, _, d := r.check(atoms, 16)
		return clause != "", clause + ": " + d
	}
	return false, "unknown message " + cs.Root
}
