package props

import (
	"encoding/json"
	"fmt"
	"sort"
	"strings"

	gpb "github.com/openconfig/gnmi/proto/gnmi"
	"github.com/openconfig/ygot/ygot"
	"github.com/openconfig/ygot/ytypes"
	"github.com/openconfig/ygot/zzverif/core"
)

func init() { core.RegisterProp(&core.Prop{ID: "C02", Run: runC02, Replay: replayC02}) }

func safeNotifs(f func() ([]*gpb.Notification, error)) (n []*gpb.Notification, err error) {
	defer recoverTo(&err)
	return f()
}

func safeErr(f func() error) (err error) {
	defer recoverTo(&err)
	return f()
}

// c02Check: render the sub-tree at prefix path pfx ("" = root) and apply to an empty root.
func c02Check(p *core.Pkg, atoms []*core.Atom, pfx string) (string, string) {
	t, err := p.Build(atoms)
	if err != nil {
		return "", ""
	}
	want := p.Observe(t)
	if len(want.Unkeyed) > 0 {
		// no gNMI path exists for unkeyed lists: the documented error must be returned, not a panic.
		_, err := safeNotifs(func() ([]*gpb.Notification, error) {
			return ygot.TogNMINotifications(t.(ygot.GoStruct), 1, ygot.GNMINotificationsConfig{UsePathElem: true})
		})
		if err == nil || strings.Contains(err.Error(), "PANIC") {
			return "unkeyed-not-rejected:", fmt.Sprintf("tree with unkeyed list: err=%v", err)
		}
		return "", "excluded"
	}
	var node ygot.GoStruct = t.(ygot.GoStruct)
	var ppath core.Path
	if pfx != "" {
		n, ok := want.Structs[pfx]
		if !ok {
			return "", ""
		}
		node = n.(ygot.GoStruct)
		ppath = want.Paths[pfx]
	}
	cfg := ygot.GNMINotificationsConfig{UsePathElem: true}
	if ppath != nil {
		cfg.PathElemPrefix = ppath.GNMI().Elem
	}
	ns, err := safeNotifs(func() ([]*gpb.Notification, error) { return ygot.TogNMINotifications(node, 42, cfg) })
	if err != nil {
		return "render-error:", fmt.Sprintf("TogNMINotifications failed: %v", err)
	}
	// expected model: leaves under the prefix + key leaves of list entries on the prefix path
	exp := core.NewModel()
	for k, v := range want.Leaves {
		if ppath.Covers(want.Paths[k]) {
			exp.Leaves[k] = v
		}
	}
	for k, v := range want.Order {
		// keep the entries of the ordered list that lie under the prefix or contain it
		var keep []string
		for _, ks := range v {
			for es := range want.Entries {
				ep := want.Paths[es]
				lp := ep.Clone()
				lp[len(lp)-1].Keys = nil
				if lp.String() == k && ep[len(ep)-1].KeyString() == ks && (ppath.Covers(ep) || ep.Covers(ppath)) {
					keep = append(keep, ks)
				}
			}
		}
		if len(keep) > 0 {
			exp.Order[k] = keep
		}
	}
	for i := range ppath {
		if len(ppath[i].Keys) == 0 {
			continue
		}
		ep := ppath[:i+1]
		if s, ok := want.Structs[core.Path(ep).String()]; ok {
			for k, v := range p.KeyLeafPaths(s, core.Path(ep)) {
				exp.Leaves[k] = v
			}
		}
	}
	back := p.NewRoot()
	sch := &ytypes.Schema{Root: back, SchemaTree: p.Schema().SchemaTree, Unmarshal: p.Schema().Unmarshal}
	if err := safeErr(func() error { return ytypes.UnmarshalNotifications(sch, ns) }); err != nil {
		return "apply-error:", fmt.Sprintf("UnmarshalNotifications rejected ygot's own output: %v; notifications=%v", err, ns)
	}
	got := p.Observe(back)
	if got.LeafCanon(true) != exp.LeafCanon(true) {
		return "tree-differs:", fmt.Sprintf("prefix=%q: %s", pfx, core.DiffCanon(exp.LeafCanon(true), got.LeafCanon(true)))
	}
	return "", ""
}

func runC02(c *core.Ctx) {
	c.Level = "model_checking"
	k := kFor(c, 2, 3)
	c.Rule = fmt.Sprintf("explicit-state BFS over atom sequences up to k=%d on all 8 corpus packages; in every state the tree is rendered with TogNMINotifications(PathElem) at the root and at every container / list-entry sub-root with PathElemPrefix=path(node), applied to an empty root with UnmarshalNotifications and the observed leaves, leaf-lists and ordered-list order compared with the reference Model; non-trivial = state that yields at least one update", k)
	c.R.Assume("builder/observer correct; reference key formatter (decimal digits, names, shortest decimal) denotes the same key values as ygot's parser accepts")
	exploreAll(c, core.Packages(), k, nil, func(sp *core.Space, st core.State) {
		atoms := sp.SeqAtoms(st)
		t := sp.Build(st)
		m := sp.P.Observe(t)
		pfxs := []string{""}
		if len(m.Unkeyed) == 0 {
			var subs []string
			for s := range m.Structs {
				subs = append(subs, s)
			}
			sort.Strings(subs)
			pfxs = append(pfxs, subs...)
		} else {
			c.R.Add("excluded_unkeyed", 1)
		}
		for _, pfx := range pfxs {
			c.R.Add("evaluations", 1)
			sig, detail := c02Check(sp.P, atoms, pfx)
			if sig != "" {
				// the prefix only exists when the atoms creating it are kept: minimise with a check that
				// treats "prefix vanished" as passing.
				min, msig, mdetail := minimise(atoms, func(a []*core.Atom) (string, string) { return c02Check(sp.P, a, pfx) })
				clause := clauseOf(msig)
				if pfx != "" {
					clause += "@sub"
				}
				c.R.Violation(sigFor(clause, min), mdetail+" [first seen with "+fmt.Sprint(atomNames(atoms))+": "+detail+"]", treeCase{Pkg: sp.P.Name, Atoms: atomNames(min), Opt: pfx})
				c.R.Outcome("violation")
			} else if detail == "excluded" {
				c.R.Outcome("unkeyed-documented-error")
			} else {
				c.R.Outcome("roundtrip-ok")
			}
		}
		if len(m.Leaves) > 0 {
			c.R.NonTrivial(sp.P.Name + string(st.Key[:]))
		}
	})
	c02Exposed(c)
}

// c02Exposed drives the deliberately exposed ordered list /top/olx (an ordered-by-user list whose
// parent container has other children): its atomic notification uses the parent as prefix.
func c02Exposed(c *core.Ctx) {
	for _, p := range core.Packages("vt") {
		var ex []*core.Atom
		for _, a := range p.ExposedAtoms() {
			if a.Kind == "entry" {
				ex = append(ex, a)
			}
		}
		if len(ex) == 0 {
			continue
		}
		for _, sib := range core.FocusAtoms(p.Atoms()) {
			if sib.Nested {
				continue
			}
			for rep := 0; rep < 3; rep++ { // notification order follows Go map iteration
				c.R.Add("evaluations", 1)
				sig, detail := c02Check(p, []*core.Atom{sib, ex[0]}, "")
				if sig != "" {
					one, _ := c02Check(p, []*core.Atom{ex[0]}, "")
					two, _ := c02Check(p, []*core.Atom{sib}, "")
					if one == "" && two == "" {
						c.R.Violation("exposed-ordered-list:sibling-lost", "ordered list with siblings under its parent: "+detail, treeCase{Pkg: p.Name, Atoms: atomNames([]*core.Atom{sib, ex[0]})})
					}
					break
				}
			}
		}
	}
}

func replayC02(c *core.Ctx, raw []byte) (bool, string) {
	var tc treeCase
	if err := json.Unmarshal(raw, &tc); err != nil {
		return false, err.Error()
	}
	p := core.PkgByName(tc.Pkg)
	if p == nil {
		return false, "unknown package"
	}
	atoms, ok := p.AtomsByName(tc.Atoms)
	if !ok {
		return false, "unknown atoms"
	}
	sig, d := c02Check(p, atoms, tc.Opt)
	return sig != "", sig + " " + d
}
