package props

// C20 helpers: nil-preserving copies and renderings of gNMI messages and the deviation alphabets
// for paths, TypedValues and SetRequests / Notifications.

import (
	"fmt"
	"sort"
	"strings"

	gpb "github.com/openconfig/gnmi/proto/gnmi"
	"google.golang.org/protobuf/types/known/anypb"
)

// ---- copies that keep nil messages / nil list elements (proto.Clone turns them into empty ones) ----

func c20CpBytes(b []byte) []byte {
	if b == nil {
		return nil
	}
	return append([]byte{}, b...)
}

func c20CpElem(e *gpb.PathElem) *gpb.PathElem {
	if e == nil {
		return nil
	}
	o := &gpb.PathElem{Name: e.Name}
	if e.Key != nil {
		o.Key = make(map[string]string, len(e.Key))
		for k, v := range e.Key {
			o.Key[k] = v
		}
	}
	return o
}

func c20CpPath(p *gpb.Path) *gpb.Path {
	if p == nil {
		return nil
	}
	o := &gpb.Path{Origin: p.Origin, Target: p.Target}
	if p.Element != nil {
		o.Element = append([]string{}, p.Element...)
	}
	if p.Elem != nil {
		o.Elem = make([]*gpb.PathElem, len(p.Elem))
		for i, e := range p.Elem {
			o.Elem[i] = c20CpElem(e)
		}
	}
	return o
}

func c20CpTV(v *gpb.TypedValue) *gpb.TypedValue {
	if v == nil {
		return nil
	}
	o := &gpb.TypedValue{}
	switch x := v.Value.(type) {
	case *gpb.TypedValue_StringVal:
		o.Value = &gpb.TypedValue_StringVal{StringVal: x.StringVal}
	case *gpb.TypedValue_IntVal:
		o.Value = &gpb.TypedValue_IntVal{IntVal: x.IntVal}
	case *gpb.TypedValue_UintVal:
		o.Value = &gpb.TypedValue_UintVal{UintVal: x.UintVal}
	case *gpb.TypedValue_BoolVal:
		o.Value = &gpb.TypedValue_BoolVal{BoolVal: x.BoolVal}
	case *gpb.TypedValue_BytesVal:
		o.Value = &gpb.TypedValue_BytesVal{BytesVal: c20CpBytes(x.BytesVal)}
	case *gpb.TypedValue_FloatVal:
		o.Value = &gpb.TypedValue_FloatVal{FloatVal: x.FloatVal}
	case *gpb.TypedValue_DoubleVal:
		o.Value = &gpb.TypedValue_DoubleVal{DoubleVal: x.DoubleVal}
	case *gpb.TypedValue_DecimalVal:
		w := &gpb.TypedValue_DecimalVal{}
		if x.DecimalVal != nil {
			w.DecimalVal = &gpb.Decimal64{Digits: x.DecimalVal.Digits, Precision: x.DecimalVal.Precision}
		}
		o.Value = w
	case *gpb.TypedValue_LeaflistVal:
		w := &gpb.TypedValue_LeaflistVal{}
		if x.LeaflistVal != nil {
			w.LeaflistVal = &gpb.ScalarArray{}
			if x.LeaflistVal.Element != nil {
				w.LeaflistVal.Element = make([]*gpb.TypedValue, len(x.LeaflistVal.Element))
				for i, e := range x.LeaflistVal.Element {
					w.LeaflistVal.Element[i] = c20CpTV(e)
				}
			}
		}
		o.Value = w
	case *gpb.TypedValue_AnyVal:
		w := &gpb.TypedValue_AnyVal{}
		if x.AnyVal != nil {
			w.AnyVal = &anypb.Any{TypeUrl: x.AnyVal.TypeUrl, Value: c20CpBytes(x.AnyVal.Value)}
		}
		o.Value = w
	case *gpb.TypedValue_JsonVal:
		o.Value = &gpb.TypedValue_JsonVal{JsonVal: c20CpBytes(x.JsonVal)}
	case *gpb.TypedValue_JsonIetfVal:
		o.Value = &gpb.TypedValue_JsonIetfVal{JsonIetfVal: c20CpBytes(x.JsonIetfVal)}
	case *gpb.TypedValue_AsciiVal:
		o.Value = &gpb.TypedValue_AsciiVal{AsciiVal: x.AsciiVal}
	case *gpb.TypedValue_ProtoBytes:
		o.Value = &gpb.TypedValue_ProtoBytes{ProtoBytes: c20CpBytes(x.ProtoBytes)}
	}
	return o
}

func c20CpUpd(u *gpb.Update) *gpb.Update {
	if u == nil {
		return nil
	}
	return &gpb.Update{Path: c20CpPath(u.Path), Val: c20CpTV(u.Val), Duplicates: u.Duplicates}
}

func c20CpUpds(us []*gpb.Update) []*gpb.Update {
	if us == nil {
		return nil
	}
	o := make([]*gpb.Update, len(us))
	for i, u := range us {
		// an update that is the same pointer as an earlier one stays the same pointer in the copy
		for j := 0; j < i; j++ {
			if u != nil && us[j] == u {
				o[i] = o[j]
			}
		}
		if o[i] == nil {
			o[i] = c20CpUpd(u)
		}
	}
	return o
}

func c20CpPaths(ps []*gpb.Path) []*gpb.Path {
	if ps == nil {
		return nil
	}
	o := make([]*gpb.Path, len(ps))
	for i, p := range ps {
		o[i] = c20CpPath(p)
	}
	return o
}

// ---- renderings for replay files / details (must not panic on nil parts) ----

func c20PathText(p *gpb.Path) string {
	if p == nil {
		return "<nil-path>"
	}
	var b strings.Builder
	if p.Origin != "" || p.Target != "" {
		fmt.Fprintf(&b, "{origin=%q target=%q}", p.Origin, p.Target)
	}
	if len(p.Element) > 0 {
		fmt.Fprintf(&b, "{element=%q}", p.Element)
	}
	if len(p.Elem) == 0 {
		b.WriteString("/")
	}
	for _, e := range p.Elem {
		if e == nil {
			b.WriteString("/<nil-elem>")
			continue
		}
		fmt.Fprintf(&b, "/%q", e.Name)
		if e.Key != nil && len(e.Key) == 0 {
			b.WriteString("[]")
		}
		ks := make([]string, 0, len(e.Key))
		for k := range e.Key {
			ks = append(ks, k)
		}
		sort.Strings(ks)
		for _, k := range ks {
			fmt.Fprintf(&b, "[%q=%q]", k, e.Key[k])
		}
	}
	return b.String()
}

func c20TVText(v *gpb.TypedValue) string {
	if v == nil {
		return "<nil-tv>"
	}
	switch x := v.Value.(type) {
	case nil:
		return "tv{}"
	case *gpb.TypedValue_LeaflistVal:
		if x.LeaflistVal == nil {
			return "leaflist<nil>"
		}
		var es []string
		for _, e := range x.LeaflistVal.Element {
			es = append(es, c20TVText(e))
		}
		if x.LeaflistVal.Element == nil {
			return "leaflist{}"
		}
		return "leaflist[" + strings.Join(es, ",") + "]"
	case *gpb.TypedValue_StringVal:
		return fmt.Sprintf("string(%q)", x.StringVal)
	case *gpb.TypedValue_IntVal:
		return fmt.Sprintf("int(%d)", x.IntVal)
	case *gpb.TypedValue_UintVal:
		return fmt.Sprintf("uint(%d)", x.UintVal)
	case *gpb.TypedValue_BoolVal:
		return fmt.Sprintf("bool(%v)", x.BoolVal)
	case *gpb.TypedValue_BytesVal:
		return fmt.Sprintf("bytes(%v nil=%v)", x.BytesVal, x.BytesVal == nil)
	case *gpb.TypedValue_FloatVal:
		return fmt.Sprintf("float(%v)", x.FloatVal)
	case *gpb.TypedValue_DoubleVal:
		return fmt.Sprintf("double(%v)", x.DoubleVal)
	case *gpb.TypedValue_DecimalVal:
		if x.DecimalVal == nil {
			return "decimal<nil>"
		}
		return fmt.Sprintf("decimal(%d,%d)", x.DecimalVal.Digits, x.DecimalVal.Precision)
	case *gpb.TypedValue_AnyVal:
		if x.AnyVal == nil {
			return "any<nil>"
		}
		return fmt.Sprintf("any(%q,%v)", x.AnyVal.TypeUrl, x.AnyVal.Value)
	case *gpb.TypedValue_JsonVal:
		return fmt.Sprintf("json(%q nil=%v)", x.JsonVal, x.JsonVal == nil)
	case *gpb.TypedValue_JsonIetfVal:
		return fmt.Sprintf("json_ietf(%q nil=%v)", x.JsonIetfVal, x.JsonIetfVal == nil)
	case *gpb.TypedValue_AsciiVal:
		return fmt.Sprintf("ascii(%q)", x.AsciiVal)
	case *gpb.TypedValue_ProtoBytes:
		return fmt.Sprintf("proto_bytes(%v nil=%v)", x.ProtoBytes, x.ProtoBytes == nil)
	}
	return fmt.Sprintf("%T", v.Value)
}

func c20UpdText(u *gpb.Update) string {
	if u == nil {
		return "<nil-update>"
	}
	return c20PathText(u.Path) + " = " + c20TVText(u.Val)
}

// ---- path deviations ---------------------------------------------------------------------------

// c20PDev is one deviation of a path; F gets a private copy and returns the deviating path.
type c20PDev struct {
	Name string
	F    func(p *gpb.Path) *gpb.Path
}

func c20SortedKeys(m map[string]string) []string {
	ks := make([]string, 0, len(m))
	for k := range m {
		ks = append(ks, k)
	}
	sort.Strings(ks)
	return ks
}

// c20PathDevs lists every single deviation applicable to p, in a fixed order. Names are unique.
func c20PathDevs(p *gpb.Path) []c20PDev {
	var out []c20PDev
	if p == nil {
		return nil
	}
	add := func(n string, f func(p *gpb.Path) *gpb.Path) { out = append(out, c20PDev{n, f}) }
	add("nil-path", func(*gpb.Path) *gpb.Path { return nil })
	for i, e := range p.Elem {
		i := i
		at := fmt.Sprintf("@%d", i)
		add("nil-elem"+at, func(q *gpb.Path) *gpb.Path { q.Elem[i] = nil; return q })
		if e == nil {
			continue
		}
		for _, nm := range [][2]string{{"empty-name", ""}, {"unknown-name", "zz"}, {"star-name", "*"}, {"dotdot-name", ".."}} {
			nm := nm
			if e.Name == nm[1] {
				continue
			}
			add(nm[0]+at, func(q *gpb.Path) *gpb.Path { q.Elem[i].Name = nm[1]; return q })
		}
		if _, has := e.Key["zz"]; !has {
			add("extra-key"+at, func(q *gpb.Path) *gpb.Path {
				if q.Elem[i].Key == nil {
					q.Elem[i].Key = map[string]string{}
				}
				q.Elem[i].Key["zz"] = "v"
				return q
			})
		}
		if len(e.Key) > 0 {
			add("empty-keymap"+at, func(q *gpb.Path) *gpb.Path { q.Elem[i].Key = map[string]string{}; return q })
		}
		for _, k := range c20SortedKeys(e.Key) {
			k := k
			kat := at + "." + k
			add("missing-key"+kat, func(q *gpb.Path) *gpb.Path { delete(q.Elem[i].Key, k); return q })
			for _, kv := range [][2]string{{"empty-keyval", ""}, {"star-keyval", "*"}, {"bad-keyval", "z z"}} {
				kv := kv
				if e.Key[k] == kv[1] {
					continue
				}
				add(kv[0]+kat, func(q *gpb.Path) *gpb.Path { q.Elem[i].Key[k] = kv[1]; return q })
			}
		}
	}
	add("append-unknown", func(q *gpb.Path) *gpb.Path { q.Elem = append(q.Elem, &gpb.PathElem{Name: "zz"}); return q })
	add("append-nil-elem", func(q *gpb.Path) *gpb.Path { q.Elem = append(q.Elem, nil); return q })
	if len(p.Elem) > 0 {
		add("truncate", func(q *gpb.Path) *gpb.Path { q.Elem = q.Elem[:len(q.Elem)-1]; return q })
		if len(p.Element) == 0 {
			add("legacy-element", func(q *gpb.Path) *gpb.Path {
				for _, e := range q.Elem {
					if e != nil {
						q.Element = append(q.Element, e.Name)
					}
				}
				q.Elem = nil
				return q
			})
		}
	}
	if p.Origin == "" {
		add("origin-target", func(q *gpb.Path) *gpb.Path { q.Origin, q.Target = "o", "t"; return q })
	}
	return out
}

// ---- TypedValue deviations ---------------------------------------------------------------------

type c20TVDev struct {
	Name string
	F    func(v *gpb.TypedValue) *gpb.TypedValue
}

var c20JSONAtoms = []string{`null`, `true`, `1`, `1.5`, `"s"`, `[]`, `[null]`, `[1]`, `["s"]`, `[{}]`, `[[]]`, `{}`, `{"x":1}`}

func c20LL(es ...*gpb.TypedValue) *gpb.TypedValue {
	return &gpb.TypedValue{Value: &gpb.TypedValue_LeaflistVal{LeaflistVal: &gpb.ScalarArray{Element: es}}}
}
func c20Str(s string) *gpb.TypedValue {
	return &gpb.TypedValue{Value: &gpb.TypedValue_StringVal{StringVal: s}}
}
func c20Int(i int64) *gpb.TypedValue {
	return &gpb.TypedValue{Value: &gpb.TypedValue_IntVal{IntVal: i}}
}
func c20JSONIETF(b []byte) *gpb.TypedValue {
	return &gpb.TypedValue{Value: &gpb.TypedValue_JsonIetfVal{JsonIetfVal: b}}
}

// c20TVAtoms: every oneof alternative with nil / empty / minimal payloads (fresh values per call).
func c20TVAtoms() []struct {
	Name string
	V    *gpb.TypedValue
} {
	type nv = struct {
		Name string
		V    *gpb.TypedValue
	}
	out := []nv{
		{"nil-tv", nil},
		{"empty-tv", &gpb.TypedValue{}},
		{"string-empty", c20Str("")},
		{"string-s", c20Str("s")},
		{"int-0", c20Int(0)},
		{"int-neg", c20Int(-1)},
		{"uint-0", &gpb.TypedValue{Value: &gpb.TypedValue_UintVal{}}},
		{"uint-max", &gpb.TypedValue{Value: &gpb.TypedValue_UintVal{UintVal: 1<<64 - 1}}},
		{"bool-false", &gpb.TypedValue{Value: &gpb.TypedValue_BoolVal{}}},
		{"bytes-nil", &gpb.TypedValue{Value: &gpb.TypedValue_BytesVal{}}},
		{"bytes-empty", &gpb.TypedValue{Value: &gpb.TypedValue_BytesVal{BytesVal: []byte{}}}},
		{"float-0", &gpb.TypedValue{Value: &gpb.TypedValue_FloatVal{}}},
		{"double-0", &gpb.TypedValue{Value: &gpb.TypedValue_DoubleVal{}}},
		{"double-frac", &gpb.TypedValue{Value: &gpb.TypedValue_DoubleVal{DoubleVal: 1.5}}},
		{"decimal-nil", &gpb.TypedValue{Value: &gpb.TypedValue_DecimalVal{}}},
		{"decimal-empty", &gpb.TypedValue{Value: &gpb.TypedValue_DecimalVal{DecimalVal: &gpb.Decimal64{}}}},
		// Decimal64.precision is an unconstrained uint32 on the wire; YANG stops at 18 fraction digits
		{"decimal-prec19", &gpb.TypedValue{Value: &gpb.TypedValue_DecimalVal{DecimalVal: &gpb.Decimal64{Digits: 42, Precision: 19}}}},
		{"decimal-prec-max", &gpb.TypedValue{Value: &gpb.TypedValue_DecimalVal{DecimalVal: &gpb.Decimal64{Digits: -1, Precision: 1<<32 - 1}}}},
		{"leaflist-decimal-prec300", c20LL(&gpb.TypedValue{Value: &gpb.TypedValue_DecimalVal{DecimalVal: &gpb.Decimal64{Digits: 7, Precision: 300}}})},
		{"leaflist-nil", &gpb.TypedValue{Value: &gpb.TypedValue_LeaflistVal{}}},
		{"leaflist-empty", &gpb.TypedValue{Value: &gpb.TypedValue_LeaflistVal{LeaflistVal: &gpb.ScalarArray{}}}},
		{"leaflist-nil-elem", c20LL(nil)},
		{"leaflist-empty-elem", c20LL(&gpb.TypedValue{})},
		{"leaflist-string", c20LL(c20Str("s"))},
		{"leaflist-int", c20LL(c20Int(1))},
		{"leaflist-mixed", c20LL(c20Str("s"), c20Int(1))},
		{"leaflist-nested", c20LL(c20LL())},
		{"leaflist-json", c20LL(c20JSONIETF([]byte(`1`)))},
		{"any-nil", &gpb.TypedValue{Value: &gpb.TypedValue_AnyVal{}}},
		{"any-empty", &gpb.TypedValue{Value: &gpb.TypedValue_AnyVal{AnyVal: &anypb.Any{}}}},
		{"json-nil", &gpb.TypedValue{Value: &gpb.TypedValue_JsonVal{}}},
		{"json-empty", &gpb.TypedValue{Value: &gpb.TypedValue_JsonVal{JsonVal: []byte{}}}},
		{"json-null", &gpb.TypedValue{Value: &gpb.TypedValue_JsonVal{JsonVal: []byte(`null`)}}},
		{"json-obj", &gpb.TypedValue{Value: &gpb.TypedValue_JsonVal{JsonVal: []byte(`{}`)}}},
		{"json-num", &gpb.TypedValue{Value: &gpb.TypedValue_JsonVal{JsonVal: []byte(`1`)}}},
		{"jsonietf-nil", c20JSONIETF(nil)},
		{"jsonietf-empty", c20JSONIETF([]byte{})},
		{"jsonietf-broken", c20JSONIETF([]byte(`{`))},
		{"ascii-empty", &gpb.TypedValue{Value: &gpb.TypedValue_AsciiVal{}}},
		{"ascii-s", &gpb.TypedValue{Value: &gpb.TypedValue_AsciiVal{AsciiVal: "s"}}},
		{"protobytes-nil", &gpb.TypedValue{Value: &gpb.TypedValue_ProtoBytes{}}},
		{"protobytes-empty", &gpb.TypedValue{Value: &gpb.TypedValue_ProtoBytes{ProtoBytes: []byte{}}}},
	}
	for _, a := range c20JSONAtoms {
		out = append(out, nv{"jsonietf:" + a, c20JSONIETF([]byte(a))})
	}
	return out
}

var c20TVAtomList = c20TVAtoms()

// c20TVDevs lists the single deviations of a TypedValue: the whole value replaced by each atom,
// and (leaf-lists) one element replaced / repeated / dropped.
func c20TVDevs(v *gpb.TypedValue) []c20TVDev {
	var out []c20TVDev
	for _, a := range c20TVAtomList {
		a := a
		out = append(out, c20TVDev{a.Name, func(*gpb.TypedValue) *gpb.TypedValue { return c20CpTV(a.V) }})
	}
	if ll, ok := v.GetValue().(*gpb.TypedValue_LeaflistVal); ok && ll.LeaflistVal != nil {
		for i := range ll.LeaflistVal.Element {
			i := i
			elemAtoms := []struct {
				n string
				v *gpb.TypedValue
			}{{"nil", nil}, {"empty", &gpb.TypedValue{}}, {"string", c20Str("s")}, {"int", c20Int(1)}, {"double", &gpb.TypedValue{Value: &gpb.TypedValue_DoubleVal{DoubleVal: 1.5}}},
				{"nested", c20LL()}, {"json", c20JSONIETF([]byte(`1`))}, {"bytes", &gpb.TypedValue{Value: &gpb.TypedValue_BytesVal{}}}}
			for _, ea := range elemAtoms {
				ea := ea
				out = append(out, c20TVDev{fmt.Sprintf("elem%d<-%s", i, ea.n), func(w *gpb.TypedValue) *gpb.TypedValue {
					w.Value.(*gpb.TypedValue_LeaflistVal).LeaflistVal.Element[i] = c20CpTV(ea.v)
					return w
				}})
			}
			out = append(out, c20TVDev{fmt.Sprintf("elem%d-repeated", i), func(w *gpb.TypedValue) *gpb.TypedValue {
				l := w.Value.(*gpb.TypedValue_LeaflistVal).LeaflistVal
				l.Element = append(l.Element, c20CpTV(l.Element[i]))
				return w
			}})
		}
	}
	return out
}

// ---- requests ----------------------------------------------------------------------------------

// c20Req is a SetRequest / Notification pair kept in a form that preserves nil parts.
type c20Req struct {
	Nil      bool // the request itself is nil
	NilNotif bool // the notification slice additionally holds a nil notification
	Atomic   bool
	Prefix   *gpb.Path
	Delete   []*gpb.Path
	Replace  []*gpb.Update
	Update   []*gpb.Update

	innerDev bool // enumeration bookkeeping: a path / TypedValue deviation was applied (not part of the input)
}

func (r *c20Req) clone() *c20Req {
	return &c20Req{Nil: r.Nil, NilNotif: r.NilNotif, Atomic: r.Atomic, innerDev: r.innerDev, Prefix: c20CpPath(r.Prefix),
		Delete: c20CpPaths(r.Delete), Replace: c20CpUpds(r.Replace), Update: c20CpUpds(r.Update)}
}

// set returns a fresh SetRequest.
func (r *c20Req) set() *gpb.SetRequest {
	if r.Nil {
		return nil
	}
	c := r.clone()
	return &gpb.SetRequest{Prefix: c.Prefix, Delete: c.Delete, Replace: c.Replace, Update: c.Update}
}

// notifs returns fresh notifications (replaces are carried as updates: a Notification has no replace).
func (r *c20Req) notifs() []*gpb.Notification {
	if r.Nil {
		return nil
	}
	c := r.clone()
	n := &gpb.Notification{Timestamp: 42, Prefix: c.Prefix, Delete: c.Delete, Update: append(c.Replace, c.Update...), Atomic: c.Atomic}
	if r.NilNotif {
		return []*gpb.Notification{n, nil}
	}
	return []*gpb.Notification{n}
}

func (r *c20Req) text() string {
	if r.Nil {
		return "<nil-request>"
	}
	var b strings.Builder
	fmt.Fprintf(&b, "prefix=%s", c20PathText(r.Prefix))
	if r.Atomic {
		b.WriteString(" atomic")
	}
	if r.NilNotif {
		b.WriteString(" +nil-notification")
	}
	for _, d := range r.Delete {
		b.WriteString(" delete{" + c20PathText(d) + "}")
	}
	for _, l := range []struct {
		n  string
		us []*gpb.Update
	}{{"replace", r.Replace}, {"update", r.Update}} {
		for i, u := range l.us {
			same := ""
			for j := 0; j < i; j++ {
				if u != nil && l.us[j] == u {
					same = fmt.Sprintf(" (same pointer as #%d)", j)
				}
			}
			b.WriteString(" " + l.n + "{" + c20UpdText(u) + same + "}")
		}
	}
	return b.String()
}

type c20RDev struct {
	Name string
	F    func(r *c20Req) // mutates a private clone
}

// c20Conflicting returns a value that differs from v (for "same path, different value").
func c20Conflicting(v *gpb.TypedValue, alt int) *gpb.TypedValue {
	if ll, ok := v.GetValue().(*gpb.TypedValue_LeaflistVal); ok && ll.LeaflistVal != nil {
		es := ll.LeaflistVal.Element
		o := c20LL()
		l := o.Value.(*gpb.TypedValue_LeaflistVal).LeaflistVal
		if alt == 0 { // reversed + one repeated element: a different leaf-list of the same type
			for i := len(es) - 1; i >= 0; i-- {
				l.Element = append(l.Element, c20CpTV(es[i]))
			}
			if len(es) > 0 {
				l.Element = append(l.Element, c20CpTV(es[0]))
			}
			return o
		}
		l.Element = []*gpb.TypedValue{c20Str("zz")}
		return o
	}
	if alt == 0 {
		if s, ok := v.GetValue().(*gpb.TypedValue_StringVal); ok {
			return c20Str(s.StringVal + "z")
		}
		return c20Str("zz")
	}
	if i, ok := v.GetValue().(*gpb.TypedValue_IntVal); ok {
		return c20Int(i.IntVal + 1)
	}
	return c20Int(9)
}

// c20ReqDevs lists the single deviations of a request. withInner adds the path / TypedValue
// deviations of every update, delete path and the prefix.
func c20ReqDevs(r *c20Req, withInner bool) []c20RDev {
	var out []c20RDev
	add := func(n string, f func(r *c20Req)) { out = append(out, c20RDev{n, f}) }
	if r.Nil {
		return nil
	}
	add("nil-request", func(x *c20Req) { x.Nil = true })
	if !r.NilNotif {
		add("nil-notification", func(x *c20Req) { x.NilNotif = true })
	}
	if !r.Atomic {
		add("atomic", func(x *c20Req) { x.Atomic = true })
	}
	if r.Prefix != nil {
		add("prefix-nil", func(x *c20Req) { x.Prefix = nil })
	}
	if r.Prefix == nil || len(r.Prefix.Elem) > 0 {
		add("prefix-empty", func(x *c20Req) { x.Prefix = &gpb.Path{} })
	}
	lists := []struct {
		n   string
		get func(x *c20Req) *[]*gpb.Update
	}{{"update", func(x *c20Req) *[]*gpb.Update { return &x.Update }}, {"replace", func(x *c20Req) *[]*gpb.Update { return &x.Replace }}}
	for _, l := range lists {
		l := l
		us := *l.get(r)
		add(l.n+":append-nil-update", func(x *c20Req) { p := l.get(x); *p = append(*p, nil) })
		add(l.n+":prepend-nil-update", func(x *c20Req) { p := l.get(x); *p = append([]*gpb.Update{nil}, *p...) })
		for i, u := range us {
			i := i
			at := fmt.Sprintf("%s[%d]", l.n, i)
			if u == nil {
				continue
			}
			add(at+":nil-update", func(x *c20Req) { (*l.get(x))[i] = nil })
			if u.Val != nil {
				add(at+":nil-val", func(x *c20Req) { (*l.get(x))[i].Val = nil })
			}
			if u.Path != nil {
				add(at+":nil-path", func(x *c20Req) { (*l.get(x))[i].Path = nil })
			}
			add(at+":repeated-same-pointer", func(x *c20Req) { p := l.get(x); *p = append(*p, (*p)[i]) })
			add(at+":repeated-copy", func(x *c20Req) { p := l.get(x); *p = append(*p, c20CpUpd((*p)[i])) })
			add(at+":repeated-first", func(x *c20Req) { p := l.get(x); *p = append([]*gpb.Update{c20CpUpd((*p)[i])}, *p...) })
			for alt := 0; alt < 2; alt++ {
				alt := alt
				add(fmt.Sprintf("%s:conflicting-duplicate%d", at, alt), func(x *c20Req) {
					p := l.get(x)
					d := c20CpUpd((*p)[i])
					d.Val = c20Conflicting(d.Val, alt)
					*p = append(*p, d)
				})
			}
			add(at+":also-in-other-list", func(x *c20Req) {
				d := c20CpUpd((*l.get(x))[i])
				if l.n == "update" {
					x.Replace = append(x.Replace, d)
				} else {
					x.Update = append(x.Update, d)
				}
			})
			add(at+":also-deleted", func(x *c20Req) { x.Delete = append(x.Delete, c20CpPath((*l.get(x))[i].Path)) })
			add(at+":parent-deleted", func(x *c20Req) {
				d := c20CpPath((*l.get(x))[i].Path)
				if d != nil && len(d.Elem) > 0 {
					d.Elem = d.Elem[:len(d.Elem)-1]
				}
				x.Delete = append(x.Delete, d)
			})
			add(at+":path-into-prefix", func(x *c20Req) {
				u := (*l.get(x))[i]
				if u.Path != nil && len(u.Path.Elem) > 0 {
					x.Prefix = &gpb.Path{Elem: append(append([]*gpb.PathElem{}, x.Prefix.GetElem()...), u.Path.Elem[0])}
					u.Path.Elem = u.Path.Elem[1:]
				}
			})
			if withInner {
				for _, pd := range c20PathDevs(u.Path) {
					pd := pd
					add(at+".path:"+pd.Name, func(x *c20Req) { u := (*l.get(x))[i]; u.Path = pd.F(u.Path) })
				}
				for _, td := range c20TVDevs(u.Val) {
					td := td
					add(at+".val:"+td.Name, func(x *c20Req) { u := (*l.get(x))[i]; u.Val = td.F(u.Val) })
				}
			}
		}
	}
	add("delete:append-nil-path", func(x *c20Req) { x.Delete = append(x.Delete, nil) })
	add("delete:root", func(x *c20Req) { x.Delete = append(x.Delete, &gpb.Path{}) })
	for i, d := range r.Delete {
		i := i
		at := fmt.Sprintf("delete[%d]", i)
		if d == nil {
			continue
		}
		add(at+":repeated", func(x *c20Req) { x.Delete = append(x.Delete, c20CpPath(x.Delete[i])) })
		if withInner {
			for _, pd := range c20PathDevs(d) {
				pd := pd
				add(at+".path:"+pd.Name, func(x *c20Req) { x.Delete[i] = pd.F(x.Delete[i]) })
			}
		}
	}
	if withInner && r.Prefix != nil {
		for _, pd := range c20PathDevs(r.Prefix) {
			pd := pd
			if pd.Name == "nil-path" {
				continue // = prefix-nil
			}
			add("prefix.path:"+pd.Name, func(x *c20Req) { x.Prefix = pd.F(x.Prefix) })
		}
	}
	return out
}
