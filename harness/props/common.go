// Package props holds the per-property checks.
package props

import (
	"fmt"
	"sync/atomic"

	"github.com/openconfig/ygot/zzverif/core"
)

// treeCase identifies one explored tree for replay: package + atom names.
type treeCase struct {
	Pkg   string   `json:"pkg"`
	Atoms []string `json:"atoms"`
	Opt   string   `json:"opt,omitempty"`
	Extra string   `json:"extra,omitempty"`
}

func kFor(c *core.Ctx, quick, thorough int) int {
	if c.Thorough() {
		return thorough
	}
	return quick
}

// exploreAll explores every listed package to depth k and calls visit for every state (in parallel).
// visit gets a builder for fresh instances of the state.
func exploreAll(c *core.Ctx, pkgs []*core.Pkg, k int, atomsOf func(p *core.Pkg) []*core.Atom,
	visit func(sp *core.Space, st core.State)) {
	for _, p := range pkgs {
		atoms := p.Atoms()
		if atomsOf != nil {
			atoms = atomsOf(p)
		}
		sp := core.Explore(p, atoms, k)
		c.R.Add("states", int64(len(sp.States)))
		c.R.Add("transitions", sp.Transitions)
		c.R.Add("traces_validated_against_impl", int64(len(sp.States)))
		c.R.Note("space_"+p.Name, map[string]interface{}{"atoms": len(atoms), "k": k, "states": len(sp.States), "builder_executions": sp.Transitions, "choice_conflicts_skipped": sp.Conflicts})
		var stop int32
		core.ParallelFor(len(sp.States), func(i int) {
			if atomic.LoadInt32(&stop) != 0 {
				return
			}
			if i%512 == 0 && c.Expired() {
				atomic.StoreInt32(&stop, 1)
				return
			}
			visit(sp, sp.States[i])
		})
		if len(sp.States) > 3 {
			c.R.Sample(map[string]interface{}{"pkg": p.Name, "atoms": sp.SeqNames(sp.States[len(sp.States)/2])})
		}
	}
}

func recoverTo(err *error) {
	if r := recover(); r != nil {
		*err = fmt.Errorf("PANIC: %v", r)
	}
}

func caseOf(sp *core.Space, st core.State, opt string) treeCase {
	return treeCase{Pkg: sp.P.Name, Atoms: sp.SeqNames(st), Opt: opt}
}

// minimise greedily removes atoms while the check still fails with the same oracle clause, so a
// violation's signature names the smallest tree that shows it.
func minimise(atoms []*core.Atom, check func([]*core.Atom) (string, string)) ([]*core.Atom, string, string) {
	sig, detail := check(atoms)
	if sig == "" {
		// the outcome is not stable (the implementation iterates Go maps): keep the case as observed
		return atoms, "unstable:", "violation observed once but not on re-execution (map-order dependent outcome)"
	}
	clause := clauseOf(sig)
	cur := atoms
	for changed := true; changed && len(cur) > 0; {
		changed = false
		for i := range cur {
			cand := append(append([]*core.Atom{}, cur[:i]...), cur[i+1:]...)
			if s, d := check(cand); s != "" && clauseOf(s) == clause {
				cur, sig, detail, changed = cand, s, d, true
				break
			}
		}
	}
	return cur, sig, detail
}

func clauseOf(sig string) string {
	for i := 0; i < len(sig); i++ {
		if sig[i] == ':' {
			return sig[:i]
		}
	}
	return sig
}

func atomNames(atoms []*core.Atom) []string {
	out := make([]string, len(atoms))
	for i, a := range atoms {
		out[i] = a.Name
	}
	return out
}

// sigFor builds the signature of a violation: oracle clause + the shape of the minimal atoms
// (schema node, key kinds, value kind). The replay file keeps the concrete atoms.
func sigFor(clause string, atoms []*core.Atom) string {
	s := clause + ":"
	for i, a := range atoms {
		if i > 0 {
			s += "+"
		}
		s += shapeName(a)
	}
	return s
}

func valueKind(v core.Value) string {
	if v.IsLL() {
		if len(v.Elems()) == 0 {
			return "ll-empty"
		}
		return "ll-" + v.Elems()[0].Kind()
	}
	k := v.Kind()
	switch pl := v.Payload(); {
	case k == "str" && pl == "", k == "bin" && pl == "", k == "dec" && pl == "0":
		return k + ":zero"
	case (k[0] == 'i' || k[0] == 'u') && pl == "0":
		return k + ":zero"
	}
	return k
}

func shapeName(a *core.Atom) string {
	s := ""
	for _, st := range a.Steps {
		s += "/" + st.Field
		if st.Key != nil {
			s += "["
			for i, k := range st.Key {
				if i > 0 {
					s += ","
				}
				s += valueKind(k)
			}
			s += "]"
		}
		if st.Elem {
			s += "[+]"
		}
	}
	if a.Val != core.NoValue {
		s += "=" + valueKind(a.Val)
	}
	if a.Kind == "emptylist" {
		s += "={}"
	}
	return s
}
