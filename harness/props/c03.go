package props

import (
	"encoding/json"
	"fmt"
	"reflect"
	"sort"
	"strings"

	gpb "github.com/openconfig/gnmi/proto/gnmi"
	"github.com/openconfig/ygot/ygot"
	"github.com/openconfig/ygot/ytypes"
	"github.com/openconfig/ygot/zzverif/core"
	"google.golang.org/protobuf/encoding/prototext"
)

func init() { core.RegisterProp(&core.Prop{ID: "C03", Run: runC03, Replay: replayC03}) }

var c03Opts = []string{"diff", "atomic", "ignoreadd", "single"}

func c03DiffOpts(opt string) []ygot.DiffOpt {
	switch opt {
	case "ignoreadd":
		return []ygot.DiffOpt{&ygot.IgnoreAdditions{}}
	case "single":
		return []ygot.DiffOpt{&ygot.DiffPathOpt{MapToSinglePath: true}}
	}
	return nil
}

func c03Run(a, b ygot.GoStruct, opt string) (ns []*gpb.Notification, err error) {
	defer recoverTo(&err)
	if opt == "atomic" {
		return ygot.DiffWithAtomic(a, b)
	}
	n, err := ygot.Diff(a, b, c03DiffOpts(opt)...)
	if err != nil {
		return nil, err
	}
	return []*gpb.Notification{n}, nil
}

// errors of the apply step that belong to C02's known findings (rejecting ygot's own encoding)
func c02Attributed(err error) bool {
	s := err.Error()
	return strings.Contains(s, "into empty") || strings.Contains(s, "does not have a union type") || strings.Contains(s, "got empty leaf list")
}

func findLeaf(m *core.Model, g []*gpb.PathElem) (string, bool) {
	for k := range m.Leaves {
		if m.Paths[k].MatchesGNMI(g) {
			return k, true
		}
	}
	return "", false
}

type c03Pair struct {
	p      *core.Pkg
	aa     []*core.Atom
	a, b   interface{}
	ma, mb *core.Model
}

func c03Prep(p *core.Pkg, aa, ba []*core.Atom) *c03Pair {
	a, err := p.Build(aa)
	if err != nil {
		return nil
	}
	b, err := p.Build(ba)
	if err != nil {
		return nil
	}
	return &c03Pair{p: p, aa: aa, a: a, b: b, ma: p.Observe(a), mb: p.Observe(b)}
}

// c03Check evaluates soundness, completeness, minimality and the apply law for one ordered pair.
func c03Check(p *core.Pkg, aa, ba []*core.Atom, opt string) (string, string) {
	pr := c03Prep(p, aa, ba)
	if pr == nil {
		return "", ""
	}
	return c03CheckPrepared(pr, opt)
}

func c03CheckPrepared(pr *c03Pair, opt string) (string, string) {
	p, aa, a, b, ma, mb := pr.p, pr.aa, pr.a, pr.b, pr.ma, pr.mb
	if len(ma.Unkeyed) > 0 || len(mb.Unkeyed) > 0 {
		return "", "excluded-unkeyed"
	}
	ns, err := c03Run(a.(ygot.GoStruct), b.(ygot.GoStruct), opt)
	if err != nil {
		return "diff-error:", fmt.Sprintf("Diff failed: %v", err)
	}
	single := opt == "single"
	// direct judgement of every update and delete
	updated := map[string]bool{}
	deleted := map[string]bool{}
	for _, n := range ns {
		for _, u := range n.Update {
			g := core.JoinElems(n.Prefix, u.Path)
			k, ok := findLeaf(mb, g)
			if !ok {
				return "update-not-in-b:", fmt.Sprintf("update %v names no leaf of b", u)
			}
			if !core.TVMatches(u.Val, mb.Leaves[k]) {
				return "update-wrong-value:", fmt.Sprintf("update %v but b holds %s=%s", u, k, mb.Leaves[k])
			}
			if av, ok := ma.Leaves[k]; ok && av == mb.Leaves[k] && !n.Atomic {
				return "update-not-minimal:", fmt.Sprintf("update for %s although a and b agree (%s)", k, av)
			}
			if opt == "ignoreadd" {
				if _, ok := ma.Leaves[k]; !ok {
					return "ignoreadditions-has-addition:", fmt.Sprintf("update for %s which is new in b", k)
				}
			}
			updated[k] = true
		}
		for _, d := range n.Delete {
			g := core.JoinElems(n.Prefix, d)
			any := false
			for k := range ma.Leaves {
				if ma.Paths[k].CoveredByGNMI(g) {
					any = true
					deleted[k] = true
					if _, inB := mb.Leaves[k]; inB && !n.Atomic {
						return "delete-of-leaf-in-b:", fmt.Sprintf("delete %v covers %s which b still holds", d, k)
					}
				}
			}
			if !any && !n.Atomic {
				return "delete-of-absent:", fmt.Sprintf("delete %v names nothing set in a", d)
			}
		}
		if n.Atomic {
			// an atomic notification replaces everything below its prefix
			for k := range ma.Leaves {
				if ma.Paths[k].CoveredByGNMI(n.Prefix.GetElem()) {
					deleted[k] = true
				}
			}
		}
	}
	// completeness (with MapToSinglePath only one of the alternative paths of a field is reported,
	// so completeness is judged through the apply step there)
	if !single {
		for k, bv := range mb.Leaves {
			av, inA := ma.Leaves[k]
			if (!inA || av != bv) && !updated[k] {
				if opt == "ignoreadd" && !inA {
					continue
				}
				return "missing-update:", fmt.Sprintf("leaf %s=%s (a: %q) has no update", k, bv, av)
			}
		}
		for k := range ma.Leaves {
			if _, inB := mb.Leaves[k]; !inB && !deleted[k] {
				return "missing-delete:", fmt.Sprintf("leaf %s set in a and absent in b has no delete", k)
			}
		}
	}
	if opt == "ignoreadd" {
		return "", ""
	}
	// apply law: a + diff == b on leaves (and order for DiffWithAtomic)
	twin, _ := p.Build(aa)
	sch := &ytypes.Schema{Root: twin.(ygot.GoStruct), SchemaTree: p.Schema().SchemaTree, Unmarshal: p.Schema().Unmarshal}
	if err := safeErr(func() error { return ytypes.UnmarshalNotifications(sch, ns) }); err != nil {
		if c02Attributed(err) {
			return "", "excluded-apply(C02)"
		}
		return "apply-error:", fmt.Sprintf("applying the diff failed: %v", err)
	}
	got := p.Observe(twin)
	withOrder := opt == "atomic"
	if got.LeafCanon(withOrder) != mb.LeafCanon(withOrder) {
		return "apply-differs:", core.DiffCanon(mb.LeafCanon(withOrder), got.LeafCanon(withOrder))
	}
	return "", ""
}

func runC03(c *core.Ctx) {
	c.Level = "model_checking"
	c.Rule = "ordered pairs (a,b) of explicit-state search states: all pairs of k<=1 states over the full alphabet, all pairs of k<=2 states over the ordered-list atoms (reorders, subsets), thorough: k<=2 x k<=1 full; x {Diff, DiffWithAtomic, IgnoreAdditions, MapToSinglePath}; every update/delete is judged directly against the two reference Models (soundness, minimality), completeness is judged per leaf, and the notifications are applied to a twin of a with UnmarshalNotifications and compared with b; plus 3-step histories a->b->c applying each diff to the running copy; non-trivial = pair with a != b"
	c.R.Assume("apply failures that reject ygot's own encoding of empty leaves / binary union members are attributed to C02 (counted as excluded)")
	eval := func(p *core.Pkg, aa, ba []*core.Atom) {
		pr := c03Prep(p, aa, ba)
		if pr == nil {
			return
		}
		for _, opt := range c03Opts {
			if opt == "single" && !p.Compressed {
				continue
			}
			c.R.Add("evaluations", 1)
			sig, detail := c03CheckPrepared(pr, opt)
			switch {
			case sig != "":
				ma, mb := aa, ba
				// minimise each side greedily
				ma, _, _ = minimise(ma, func(x []*core.Atom) (string, string) { return c03Check(p, x, mb, opt) })
				mb, s2, d2 := minimise(mb, func(x []*core.Atom) (string, string) { return c03Check(p, ma, x, opt) })
				if s2 == "" || clauseOf(s2) == "unstable" {
					s2, d2 = sig, detail
				}
				c.R.Violation(sigFor(clauseOf(s2)+"@"+opt, ma)+" -> "+sigFor("", mb), d2, pairCase{Pkg: p.Name, A: atomNames(ma), B: atomNames(mb), Opt: opt})
				c.R.Outcome("violation")
			case detail != "":
				c.R.Outcome(detail)
			default:
				c.R.Outcome("ok-" + opt)
			}
		}
	}
	pkgs := core.Packages()
	if !c.Thorough() {
		// quick: one package per representation axis (simple/wrapper unions x uncompressed/compressed)
		pkgs = nil
		for _, n := range []string{"vtus", "vtuw", "voccs", "vocuw"} {
			pkgs = append(pkgs, core.PkgByName(n))
		}
	}
	for _, p := range pkgs {
		if c.Expired() {
			break
		}
		full := core.Explore(p, p.Atoms(), 1)
		c.R.Add("states", int64(len(full.States)))
		n := len(full.States)
		c.R.Add("transitions", int64(n*n))
		core.ParallelFor(n, func(i int) {
			for j := 0; j < n; j++ {
				eval(p, full.SeqAtoms(full.States[i]), full.SeqAtoms(full.States[j]))
				if i != j {
					c.R.NonTrivial(p.Name + string(full.States[i].Key[:]) + string(full.States[j].Key[:]))
				}
			}
		})
		// ordered-list atoms, k<=2 x k<=2
		var ord []*core.Atom
		for _, a := range p.Atoms() {
			if a.Ord && a.Kind != "unkeyed" {
				ord = append(ord, a)
			}
		}
		if len(ord) > 0 {
			os := core.Explore(p, ord, 2)
			m := len(os.States)
			c.R.Add("states", int64(m))
			c.R.Add("transitions", int64(m*m))
			core.ParallelFor(m, func(i int) {
				for j := 0; j < m; j++ {
					eval(p, os.SeqAtoms(os.States[i]), os.SeqAtoms(os.States[j]))
					if i != j {
						c.R.NonTrivial(p.Name + "o" + string(os.States[i].Key[:]) + string(os.States[j].Key[:]))
					}
				}
			})
			c.R.Sample(map[string]interface{}{"pkg": p.Name, "a": os.SeqNames(os.States[m/2]), "b": os.SeqNames(os.States[m/3])})
		}
		if c.Thorough() {
			two := core.Explore(p, p.Atoms(), 2)
			m := len(two.States)
			c.R.Add("transitions", int64(m*n))
			core.ParallelFor(m, func(i int) {
				if i%64 == 0 && c.Expired() {
					return
				}
				for j := 0; j < n; j++ {
					eval(p, two.SeqAtoms(two.States[i]), full.SeqAtoms(full.States[j]))
					eval(p, full.SeqAtoms(full.States[j]), two.SeqAtoms(two.States[i]))
				}
			})
		}
		// calls after a failed call: all ordered pairs of focused k<=1 states x options
		{
			foc := core.Explore(p, core.FocusAtoms(p.Atoms()), 1)
			fn := len(foc.States)
			c.R.Add("transitions", int64(fn*fn))
			core.ParallelFor(fn, func(i int) {
				for j := 0; j < fn; j++ {
					for _, opt := range c03Opts {
						if opt == "single" && !p.Compressed {
							continue
						}
						c.R.Add("evaluations", 1)
						aa, ba := foc.SeqAtoms(foc.States[i]), foc.SeqAtoms(foc.States[j])
						sig, d, oc := c03AfterFailure(p, aa, ba, opt)
						c.R.Outcome("after-failure:" + oc)
						if sig != "" {
							c.R.Violation(sigFor(sig, aa)+" -> "+sigFor("", ba), d, map[string]interface{}{"pkg": p.Name, "a": atomNames(aa), "b": atomNames(ba), "opt": opt, "history": "Diff(a,b); failing Diff; Diff(a,b)"})
						}
					}
				}
			})
		}
		// histories: chains a -> b -> c over the focused alphabet, each diff applied to the running copy
		foc := core.Explore(p, core.FocusAtoms(p.Atoms()), 1)
		fn := len(foc.States)
		step := 1
		if !c.Thorough() {
			step = 3
		}
		core.ParallelFor(fn, func(i int) {
			for j := 0; j < fn; j += step {
				for k := (i + j) % step; k < fn; k += step {
					c.R.Add("evaluations", 1)
					c.R.Add("traces_validated_against_impl", 1)
					seqs := [][]*core.Atom{foc.SeqAtoms(foc.States[i]), foc.SeqAtoms(foc.States[j]), foc.SeqAtoms(foc.States[k])}
					if sig, d, step := c03Chain(p, seqs); sig != "" {
						// only history-dependent failures are reported here: if the failing step also fails as a
						// plain pair it is already reported by the pair exploration.
						if ps, _ := c03Check(p, seqs[step-1], seqs[step], "atomic"); ps != "" {
							c.R.Outcome("chain-step-fails-as-pair")
							continue
						}
						c.R.Violation(sig+sigFor("", seqs[0])+" -> "+sigFor("", seqs[1])+" -> "+sigFor("", seqs[2]), d, map[string]interface{}{"pkg": p.Name, "chain": [][]string{atomNames(seqs[0]), atomNames(seqs[1]), atomNames(seqs[2])}})
					}
				}
			}
		})
	}
}

// c03Poison builds trees for which Diff fails: the tree of seq with the leaves (key leaf included)
// of one keyed-list entry set to nil ("nilkey"), and the tree of seq plus an unkeyed-list atom
// ("unkeyed", when the package has one). A failing call must leave nothing behind that a later
// call can observe (caches, pooled scratch state).
func c03Poison(p *core.Pkg, seq []*core.Atom) map[string]interface{} {
	out := map[string]interface{}{}
	if root, err := p.Build(seq); err == nil && c03NilKey(reflect.ValueOf(root)) {
		out["nilkey"] = root
	}
	for _, a := range p.Atoms() {
		if a.Kind == "unkeyed" {
			if root, err := p.Build(append(append([]*core.Atom{}, seq...), a)); err == nil {
				out["unkeyed"] = root
			}
			break
		}
	}
	return out
}

// c03NilKey sets every scalar leaf of the first keyed-list entry found (depth-first) to nil.
func c03NilKey(v reflect.Value) bool {
	if v.Kind() == reflect.Ptr {
		if v.IsNil() {
			return false
		}
		v = v.Elem()
	}
	if v.Kind() != reflect.Struct {
		return false
	}
	for i := 0; i < v.NumField(); i++ {
		f := v.Field(i)
		switch f.Kind() {
		case reflect.Map:
			for _, k := range f.MapKeys() {
				e := f.MapIndex(k)
				if e.Kind() != reflect.Ptr || e.IsNil() || e.Elem().Kind() != reflect.Struct {
					continue
				}
				done := false
				for j := 0; j < e.Elem().NumField(); j++ {
					lf := e.Elem().Field(j)
					if lf.Kind() == reflect.Ptr && !lf.IsNil() && lf.Elem().Kind() != reflect.Struct && lf.CanSet() {
						lf.Set(reflect.Zero(lf.Type()))
						done = true
					}
				}
				if done {
					return true
				}
			}
		case reflect.Ptr:
			if !f.IsNil() && f.Elem().Kind() == reflect.Struct && c03NilKey(f) {
				return true
			}
		}
	}
	return false
}

// c03Text renders notifications up to the orders that carry no meaning (Go map iteration decides
// them): deletes and the updates of non-atomic notifications are sorted, as are the notifications.
func c03Text(ns []*gpb.Notification, err error) string {
	if err != nil {
		return "error: " + err.Error()
	}
	f := prototext.MarshalOptions{Multiline: false}
	var all []string
	for _, n := range ns {
		var del, upd []string
		for _, d := range n.Delete {
			del = append(del, f.Format(d))
		}
		for _, u := range n.Update {
			upd = append(upd, f.Format(u))
		}
		sort.Strings(del)
		if !n.Atomic {
			sort.Strings(upd)
		}
		all = append(all, fmt.Sprintf("atomic=%v prefix=%s\n  delete: %s\n  update: %s", n.Atomic, f.Format(n.Prefix), strings.Join(del, " | "), strings.Join(upd, " | ")))
	}
	sort.Strings(all)
	return strings.Join(all, "\n")
}

// c03AfterFailure: Diff(a,b) is computed, then a failing Diff call is made on a tree that shares
// paths with a, then Diff(a,b) is computed again on fresh copies: both results must be equal and
// the second must pass the full pair oracle as well.
func c03AfterFailure(p *core.Pkg, aa, ba []*core.Atom, opt string) (sig, detail, outcome string) {
	pr := c03Prep(p, aa, ba)
	if pr == nil || len(pr.ma.Unkeyed) > 0 || len(pr.mb.Unkeyed) > 0 {
		return "", "", "excluded"
	}
	first := c03Text(c03Run(pr.a.(ygot.GoStruct), pr.b.(ygot.GoStruct), opt))
	poisons := c03Poison(p, aa)
	if len(poisons) == 0 {
		return "", "", "no-failing-call-available"
	}
	for _, kind := range []string{"nilkey", "unkeyed"} {
		bad, ok := poisons[kind]
		if !ok {
			continue
		}
		if _, err := c03Run(bad.(ygot.GoStruct), bad.(ygot.GoStruct), opt); err == nil {
			outcome += kind + "-did-not-fail,"
			continue
		}
		outcome += kind + "-failed,"
		second := c03Text(c03Run(pr.a.(ygot.GoStruct), pr.b.(ygot.GoStruct), opt))
		if second != first {
			return "result-depends-on-history(after-failed-" + kind + ")@" + opt, fmt.Sprintf("Diff(a,b) before the failing call:\n%s\nafter it:\n%s", first, second), outcome
		}
		if s, d := c03CheckPrepared(c03Prep(p, aa, ba), opt); s != "" {
			return "result-depends-on-history(after-failed-" + kind + ")@" + opt, "pair oracle after the failing call: " + s + " " + d, outcome
		}
	}
	return "", "", outcome
}

func c03Chain(p *core.Pkg, seqs [][]*core.Atom) (string, string, int) {
	cur, err := p.Build(seqs[0])
	if err != nil {
		return "", "", 0
	}
	for i := 1; i < len(seqs); i++ {
		nxt, err := p.Build(seqs[i])
		if err != nil {
			return "", "", 0
		}
		mn := p.Observe(nxt)
		if len(mn.Unkeyed) > 0 || len(p.Observe(cur).Unkeyed) > 0 {
			return "", "", 0
		}
		ns, err := c03Run(cur.(ygot.GoStruct), nxt.(ygot.GoStruct), "atomic")
		if err != nil {
			return "chain-diff-error:", err.Error(), i
		}
		sch := &ytypes.Schema{Root: cur.(ygot.GoStruct), SchemaTree: p.Schema().SchemaTree, Unmarshal: p.Schema().Unmarshal}
		if err := safeErr(func() error { return ytypes.UnmarshalNotifications(sch, ns) }); err != nil {
			if c02Attributed(err) {
				return "", "", 0
			}
			return "chain-apply-error:", err.Error(), i
		}
		if got := p.Observe(cur); got.LeafCanon(true) != mn.LeafCanon(true) {
			return "chain-apply-differs:", fmt.Sprintf("step %d: %s", i, core.DiffCanon(mn.LeafCanon(true), got.LeafCanon(true))), i
		}
	}
	return "", "", 0
}

func replayC03(c *core.Ctx, raw []byte) (bool, string) {
	var pc pairCase
	if err := json.Unmarshal(raw, &pc); err != nil || pc.Pkg == "" {
		return false, "chain replays are re-run by the explorer only"
	}
	p := core.PkgByName(pc.Pkg)
	if p == nil {
		return false, "unknown package"
	}
	aa, ok := p.AtomsByName(pc.A)
	ba, ok2 := p.AtomsByName(pc.B)
	if !ok || !ok2 {
		return false, "unknown atoms"
	}
	sig, d := c03Check(p, aa, ba, pc.Opt)
	return sig != "", sig + " " + d
}
