package props

import (
	"encoding/json"
	"fmt"
	"os"
	"reflect"
	"regexp"
	"strconv"
	"strings"
	"sync"
	"sync/atomic"

	gpb "github.com/openconfig/gnmi/proto/gnmi"
	"github.com/openconfig/goyang/pkg/yang"
	"github.com/openconfig/ygot/ygot"
	"github.com/openconfig/ygot/ytypes"
	"github.com/openconfig/ygot/zzverif/core"
)

// C13 - UnmarshalSetRequest implements gNMI Set semantics.
//
// Explicit-state model checking of ytypes.UnmarshalSetRequest / UnmarshalNotifications: from every
// state of the bounded search over atom sequences, every SetRequest of a bounded op alphabet is
// executed on a fresh real tree and the observed Model is compared with reference semantics that
// are written here on core.Model (c13Del / c13Overlay / refApply): prefix joined to every path, all
// deletes in order, then each replace (delete the subtree, write the payload), then each update
// (merge the payload), compared after every request. See NOTES-C13.md.

func init() { core.RegisterProp(&core.Prop{ID: "C13", Run: runC13, Replay: replayC13}) }

// ---- operations ------------------------------------------------------------------------------

// c13Op is one operation of a request. Paths are absolute; the request decides how they are split
// into prefix + path.
type c13Op struct {
	Kind  byte // 'D' delete, 'R' replace, 'U' update
	Path  core.Path
	TK    string       // target kind: root container presence entry olentry list ollist partial olparent leaf leaflist keyleaf
	Atoms []*core.Atom // payload: the atoms (absolute) the payload denotes
	Enc   string       // scalar | json (leaf targets) | key (key leaf, scalar) | tree | tree-nokeys | list

	pm    *core.Model     // what writing the payload creates: target node, payload leaves, key leaves of created entries
	tv    *gpb.TypedValue // encoded payload
	foc   bool            // member of the focused alphabet A2
	small bool            // member of the small alphabet A3 (subset of A2)
	id    int

	ordInside []string // ordered-by-user list entries the JSON payload carries (strictly inside the target)
	rejOnce   sync.Once
	rejErr    string // error text of the standalone update from the empty tree ("" = accepted)
}

func c13WildTK(tk string) bool { return tk == "list" || tk == "ollist" || tk == "partial" }

// c13Req is one SetRequest (or Notification).
type c13Req struct {
	Ops    []*c13Op
	PfxNil bool      // Prefix field left nil
	Prefix core.Path // otherwise: the prefix (may be empty); every op path starts with it
	Notif  bool      // sent as a Notification through UnmarshalNotifications (no replaces)
	Atomic bool      // Notification.Atomic
	// Unknown: absolute paths of struct nodes; for each the request carries (first) an update of the
	// leaf "zz-unknown" below it, which the schema does not have. Such a request is executed with
	// ytypes.IgnoreExtraFields and the reference ignores these updates: the tree must not change.
	Unknown []core.Path
}

// c13Seq is a history of requests applied to one tree.
type c13Seq struct {
	Reqs    []*c13Req
	OneCall bool // all requests are notifications handed to ONE UnmarshalNotifications call
}

func (rq *c13Req) rel(op *c13Op) *gpb.Path {
	n := 0
	if !rq.PfxNil {
		n = len(rq.Prefix)
	}
	return op.Path[n:].GNMI()
}

func (rq *c13Req) setRequest() *gpb.SetRequest {
	sr := &gpb.SetRequest{}
	if !rq.PfxNil {
		sr.Prefix = rq.Prefix.GNMI()
	}
	for _, u := range rq.Unknown {
		n := 0
		if !rq.PfxNil {
			n = len(rq.Prefix)
		}
		g := u[n:].GNMI()
		g.Elem = append(g.Elem, &gpb.PathElem{Name: "zz-unknown"})
		sr.Update = append(sr.Update, &gpb.Update{Path: g, Val: &gpb.TypedValue{Value: &gpb.TypedValue_StringVal{StringVal: "x"}}})
	}
	for _, op := range rq.Ops {
		switch op.Kind {
		case 'D':
			sr.Delete = append(sr.Delete, rq.rel(op))
		case 'R':
			sr.Replace = append(sr.Replace, &gpb.Update{Path: rq.rel(op), Val: op.tv})
		case 'U':
			sr.Update = append(sr.Update, &gpb.Update{Path: rq.rel(op), Val: op.tv})
		}
	}
	return sr
}

func (rq *c13Req) notification() *gpb.Notification {
	sr := rq.setRequest()
	return &gpb.Notification{Timestamp: 1, Prefix: sr.Prefix, Delete: sr.Delete, Update: sr.Update, Atomic: rq.Atomic}
}

// ---- reference semantics on core.Model -----------------------------------------------------------

func c13Reg(m *core.Model, q core.Path) string {
	s := q.String()
	if _, ok := m.Paths[s]; !ok {
		m.Paths[s] = q.Clone()
	}
	return s
}

// c13Del removes everything at or below q (keys missing in q act as wildcards).
func c13Del(m *core.Model, q core.Path) (had bool) {
	for k := range m.Leaves {
		if q.Covers(m.Paths[k]) {
			delete(m.Leaves, k)
			had = true
		}
	}
	for k := range m.Entries {
		ep := m.Paths[k]
		if !q.Covers(ep) {
			continue
		}
		delete(m.Entries, k)
		had = true
		lp := ep.Clone()
		lp[len(lp)-1].Keys = nil
		ls, ks := lp.String(), ep[len(ep)-1].KeyString()
		if ord, ok := m.Order[ls]; ok {
			var keep []string
			for _, x := range ord {
				if x != ks {
					keep = append(keep, x)
				}
			}
			if len(keep) == 0 {
				delete(m.Order, ls)
			} else {
				m.Order[ls] = keep
			}
		}
	}
	for k := range m.Presence {
		if q.Covers(m.Paths[k]) {
			delete(m.Presence, k)
			had = true
		}
	}
	for k := range m.Unkeyed {
		if q.Covers(m.Paths[k]) {
			delete(m.Unkeyed, k)
			had = true
		}
	}
	return had
}

// c13Overlay merges src into dst: leaves and leaf-lists are overwritten wholesale, list entries are
// merged by key, entries that are new to an ordered-by-user list are appended in src order.
func c13Overlay(dst, src *core.Model) {
	for k, v := range src.Leaves {
		dst.Leaves[k] = v
		dst.Paths[k] = src.Paths[k]
	}
	for k := range src.Entries {
		dst.Entries[k] = true
		dst.Paths[k] = src.Paths[k]
	}
	for k := range src.Presence {
		dst.Presence[k] = true
		dst.Paths[k] = src.Paths[k]
	}
	for lp, ks := range src.Order {
		dst.Paths[lp] = src.Paths[lp]
		for _, x := range ks {
			found := false
			for _, y := range dst.Order[lp] {
				if x == y {
					found = true
				}
			}
			if !found {
				dst.Order[lp] = append(dst.Order[lp], x)
			}
		}
	}
}

type c13Wild struct {
	op      *c13Op
	present bool
}

// refApply applies one request to the reference model. excl != "" when the reference is undefined
// for the request (documented limitation); wild lists the deletes / replaces addressed to a list
// without (all of) its keys and whether they held data; cleared lists the paths that were deleted.
func (sp *c13Space) refApply(m *core.Model, rq *c13Req) (excl string, wild []c13Wild, cleared []core.Path) {
	del := func(op *c13Op) {
		had := c13Del(m, op.Path)
		if c13WildTK(op.TK) {
			wild = append(wild, c13Wild{op, had})
		}
		cleared = append(cleared, op.Path)
	}
	write := func(op *c13Op) {
		// a JSON payload that carries an entry of an ordered-by-user list which already exists:
		// ygot documents that such lists are unmarshalled as a whole (Append fails on the duplicate)
		for _, es := range op.ordInside {
			if m.Entries[es] && excl == "" {
				excl = "json-into-existing-ordered-entry"
			}
		}
		c13Overlay(m, op.pm)
	}
	for _, op := range rq.Ops {
		if op.Kind == 'D' {
			del(op)
		}
	}
	if rq.Atomic {
		c13Del(m, rq.Prefix)
		cleared = append(cleared, rq.Prefix)
	}
	for _, op := range rq.Ops {
		if op.Kind == 'R' {
			del(op)
			write(op)
		}
	}
	for _, op := range rq.Ops {
		if op.Kind == 'U' {
			write(op)
		}
	}
	return
}

// c13Compare compares the expected with the observed model. Presence containers and list entries on
// the way to a deleted path that hold no leaf are not judged (DeleteNode documents that it prunes
// them); for those the reference adopts what ygot did.
func c13Compare(want, got *core.Model, cleared []core.Path) (string, string) {
	if c13SameData(want, got) && len(got.Bad) == 0 {
		return "", ""
	}
	hasLeafBelow := func(n core.Path) bool {
		for k := range want.Leaves {
			if n.Covers(want.Paths[k]) {
				return true
			}
		}
		return false
	}
	dontCare := func(n core.Path) bool {
		for _, d := range cleared {
			if len(n) < len(d) && n.Covers(d) && !hasLeafBelow(n) {
				return true
			}
		}
		return false
	}
	diff := func() string { return core.DiffCanon(want.Canon(), got.Canon()) }
	for _, k := range core.SortedKeys(want.Leaves) {
		gv, ok := got.Leaves[k]
		if !ok {
			return "leaf-lost", fmt.Sprintf("%s=%s is missing: %s", k, want.Leaves[k], diff())
		}
		if gv != want.Leaves[k] {
			return "leaf-value", fmt.Sprintf("%s is %s, expected %s: %s", k, gv, want.Leaves[k], diff())
		}
	}
	for _, k := range core.SortedKeys(got.Leaves) {
		if _, ok := want.Leaves[k]; !ok {
			for _, d := range cleared {
				if d.Covers(got.Paths[k]) {
					return "data-left-below", fmt.Sprintf("%s=%s survived the delete/replace of %s: %s", k, got.Leaves[k], d, diff())
				}
			}
			return "leaf-extra", fmt.Sprintf("unexpected %s=%s: %s", k, got.Leaves[k], diff())
		}
	}
	for _, lp := range core.SortedKeys(want.Order) {
		if strings.Join(want.Order[lp], " ") != strings.Join(got.Order[lp], " ") {
			return "order", fmt.Sprintf("ordered list %s is %v, expected %v", lp, got.Order[lp], want.Order[lp])
		}
	}
	for _, lp := range core.SortedKeys(got.Order) {
		if len(want.Order[lp]) == 0 && len(got.Order[lp]) > 0 {
			return "order", fmt.Sprintf("ordered list %s is %v, expected none", lp, got.Order[lp])
		}
	}
	for _, k := range core.SortedKeys(want.Entries) {
		if !got.Entries[k] {
			if dontCare(want.Paths[k]) {
				delete(want.Entries, k)
				continue
			}
			return "entry-lost", fmt.Sprintf("list entry %s is missing: %s", k, diff())
		}
	}
	for _, k := range core.SortedKeys(got.Entries) {
		if !want.Entries[k] {
			return "entry-extra", fmt.Sprintf("unexpected list entry %s: %s", k, diff())
		}
	}
	for _, k := range core.SortedKeys(want.Presence) {
		if !got.Presence[k] {
			if dontCare(want.Paths[k]) {
				delete(want.Presence, k)
				continue
			}
			return "presence-lost", fmt.Sprintf("presence container %s is missing: %s", k, diff())
		}
	}
	for _, k := range core.SortedKeys(got.Presence) {
		if !want.Presence[k] {
			return "presence-extra", fmt.Sprintf("unexpected presence container %s: %s", k, diff())
		}
	}
	for _, k := range core.SortedKeys(want.Unkeyed) {
		if strings.Join(want.Unkeyed[k], "\x00") != strings.Join(got.Unkeyed[k], "\x00") {
			return "unkeyed", fmt.Sprintf("unkeyed list %s changed: %s", k, diff())
		}
	}
	for _, k := range core.SortedKeys(got.Unkeyed) {
		if _, ok := want.Unkeyed[k]; !ok {
			return "unkeyed", fmt.Sprintf("unexpected unkeyed list %s", k)
		}
	}
	if len(got.Bad) > 0 {
		return "inconsistent", fmt.Sprintf("tree is inconsistent afterwards: %v", got.Bad)
	}
	return "", ""
}

// c13SameData: equality of the data two models hold (no strings built).
func c13SameData(a, b *core.Model) bool {
	if len(a.Leaves) != len(b.Leaves) || len(a.Entries) != len(b.Entries) || len(a.Presence) != len(b.Presence) || len(a.Unkeyed) != len(b.Unkeyed) {
		return false
	}
	for k, v := range a.Leaves {
		if w, ok := b.Leaves[k]; !ok || w != v {
			return false
		}
	}
	for k := range a.Entries {
		if !b.Entries[k] {
			return false
		}
	}
	for k := range a.Presence {
		if !b.Presence[k] {
			return false
		}
	}
	no := 0
	for k, v := range a.Order {
		if len(v) == 0 {
			continue
		}
		no++
		w := b.Order[k]
		if len(w) != len(v) {
			return false
		}
		for i := range v {
			if v[i] != w[i] {
				return false
			}
		}
	}
	for _, w := range b.Order {
		if len(w) > 0 {
			no--
		}
	}
	if no != 0 {
		return false
	}
	for k, v := range a.Unkeyed {
		w, ok := b.Unkeyed[k]
		if !ok || len(w) != len(v) {
			return false
		}
		for i := range v {
			if v[i] != w[i] {
				return false
			}
		}
	}
	return true
}

// ---- per-package space: targets and op alphabets -----------------------------------------------------

type c13Target struct {
	Path core.Path
	TK   string
}

type c13Space struct {
	p         *core.Pkg
	atomModel []*core.Model         // by atom ID: Observe(Build([a]))
	entryAtom map[string]*core.Atom // entry path -> entry atom
	ordered   map[string]bool       // names of a list path -> ordered-by-user
	presNames map[string]bool       // names of presence container paths
	targets   []c13Target
	focus2    []*core.Atom
	isFocus2  map[int]bool
	ops       []*c13Op // A1; the focused sub-alphabet A2 has foc set
	a2        []*c13Op // focused alphabet
	a3        []*c13Op // small alphabet (two-op requests)
	olists    []c13OList
	idKeyed   bool // some list of the package is keyed by identity (wrapper-union keys)
}

// c13OList is one ordered-by-user list of the corpus with the prefix an atomic notification uses.
type c13OList struct {
	Parent  core.Path
	Entries []*core.Atom
}

func payloadAtom(a *core.Atom) bool {
	switch a.Kind {
	case "leaf", "presence", "entry":
	case "leaflist":
		if a.Val == core.LL() {
			return false // an empty leaf-list is not data (C01/C02 own its encodings)
		}
	default:
		return false
	}
	return a.Choice == "" // writing one case of a choice: YANG would delete the other case; ygot does not model choices
}

// atomClass abstracts an atom to the sequence of node kinds on its path (which entry of the list it
// uses included), so that one representative per structural position can be picked.
func (sp *c13Space) atomClass(a *core.Atom, nth map[string]int) string {
	cur := sp.p.RootType
	s := ""
	var steps []core.Step
	for _, st := range a.Steps {
		if cur.Kind() == reflect.Ptr {
			cur = cur.Elem()
		}
		f, ok := cur.FieldByName(st.Field)
		if !ok {
			return "?"
		}
		steps = append(steps, st)
		switch core.KindOfField(f.Type) {
		case core.FContainer:
			if f.Tag.Get("yangPresence") == "true" {
				s += ".P"
			} else {
				s += ".C"
			}
			cur = f.Type
		case core.FKeyedList:
			s += fmt.Sprintf(".K%d#%d", len(st.Key), nth[stepsKey(steps)])
			cur = f.Type.Elem()
		case core.FOrderedList:
			s += fmt.Sprintf(".O%d#%d", len(st.Key), nth[stepsKey(steps)])
			m, _ := f.Type.MethodByName("Values")
			cur = m.Type.Out(0).Elem()
		case core.FLeafList:
			s += ".LL"
		default:
			s += ".L"
		}
	}
	return s + ":" + a.Kind
}

func stepsKey(steps []core.Step) string {
	s := ""
	for _, st := range steps {
		s += "/" + st.Field
		if st.Key != nil {
			s += fmt.Sprint(st.Key)
		}
	}
	return s
}

var c13SecondEntryLeaf = regexp.MustCompile(`\.O\d+#1\.L:leaf$`)

var c13Spaces sync.Map

func c13SpaceOf(p *core.Pkg) *c13Space {
	if v, ok := c13Spaces.Load(p.Name); ok {
		return v.(*c13Space)
	}
	sp := newC13Space(p)
	c13Spaces.Store(p.Name, sp)
	return sp
}

func newC13Space(p *core.Pkg) *c13Space {
	sp := &c13Space{p: p, entryAtom: map[string]*core.Atom{}, ordered: map[string]bool{}, presNames: map[string]bool{}, isFocus2: map[int]bool{}}
	atoms := p.Atoms()
	sp.atomModel = make([]*core.Model, len(atoms))
	leafKind := map[string]string{}
	for _, a := range atoms {
		if t, err := p.Build([]*core.Atom{a}); err == nil {
			sp.atomModel[a.ID] = p.Observe(t)
		}
		switch a.Kind {
		case "leaf", "leaflist":
			leafKind[a.Path.String()] = a.Kind
		case "presence":
			sp.presNames[namesOf(a.Path)] = true
		case "entry":
			sp.entryAtom[a.Path.String()] = a
			sp.ordered[namesOf(a.Path)] = a.Ord
		}
	}
	// focus2: one representative atom per structural position, two entries per list
	nth := map[string]int{}
	perList := map[string]int{}
	for _, a := range atoms {
		if a.Kind == "entry" {
			k := stepsKey(a.Steps[:len(a.Steps)-1]) + "/" + a.Steps[len(a.Steps)-1].Field
			nth[stepsKey(a.Steps)] = perList[k]
			perList[k]++
		}
	}
	seenClass := map[string]bool{}
	for _, a := range atoms {
		if !payloadAtom(a) || !(a.Focus || a.Kind == "entry") {
			continue
		}
		cl := sp.atomClass(a, nth)
		if strings.Contains(cl, "#2") || seenClass[cl] {
			continue
		}
		if strings.Contains(cl, "#1.") && !c13SecondEntryLeaf.MatchString(cl) {
			continue // below the second entry of a list only the direct leaves of ordered-list entries are kept
		}
		seenClass[cl] = true
		sp.focus2 = append(sp.focus2, a)
		sp.isFocus2[a.ID] = true
	}
	// targets
	seen := map[string]bool{}
	add := func(q core.Path, tk string) {
		if s := q.String() + "|" + tk; !seen[s] {
			seen[s] = true
			sp.targets = append(sp.targets, c13Target{q.Clone(), tk})
		}
	}
	add(core.Path{}, "root")
	real := map[string]bool{}
	for _, q := range nodePaths(p) {
		if _, soft := softTarget.Load(p.Name + "|" + q.String()); soft {
			continue // container removed by path compression: not addressable, a C12 target only
		}
		s := q.String()
		real[s] = true
		last := q[len(q)-1]
		ar, isList := listArity.Load(p.Name + "|" + namesOf(q))
		ord := sp.ordered[namesOf(q)]
		switch {
		case leafKind[s] != "":
			add(q, leafKind[s])
		case isList && len(last.Keys) == 0:
			if ord {
				add(q, "ollist")
			} else {
				add(q, "list")
			}
		case isList && len(last.Keys) < ar.(int):
			add(q, "partial")
		case isList:
			if sp.entryAtom[s] == nil {
				continue
			}
			if ord {
				add(q, "olentry")
			} else {
				add(q, "entry")
			}
		case sp.presNames[namesOf(q)]:
			add(q, "presence")
		default:
			add(q, "container")
		}
	}
	for _, a := range atoms {
		if a.Kind == "entry" && a.Ord {
			pp := a.Path[:len(a.Path)-1]
			if !real[pp.String()] {
				add(pp, "olparent") // compressed schemas: the surrounding container has no struct of its own
			}
			found := false
			for i := range sp.olists {
				if sp.olists[i].Parent.String() == pp.String() {
					sp.olists[i].Entries = append(sp.olists[i].Entries, a)
					found = true
				}
			}
			if !found {
				sp.olists = append(sp.olists, c13OList{Parent: pp.Clone(), Entries: []*core.Atom{a}})
			}
		}
	}
	sp.idKeyed = identityKeyed(p.RootType, map[reflect.Type]bool{})
	sp.buildOps()
	return sp
}

// createModel is what creating the node at T (SetNode with InitMissingElements) adds to a tree: the
// list entries on the way with their key leaves, and the presence containers on the way.
func (sp *c13Space) createModel(T core.Path) *core.Model {
	m := core.NewModel()
	for n := len(T); n > 0; n-- {
		if len(T[n-1].Keys) > 0 {
			ea := sp.entryAtom[T[:n].String()]
			if ea == nil || sp.atomModel[ea.ID] == nil {
				return nil
			}
			c13Overlay(m, sp.atomModel[ea.ID])
			break
		}
	}
	for n := 1; n <= len(T); n++ {
		if sp.presNames[namesOf(T[:n])] {
			m.Presence[c13Reg(m, T[:n])] = true
		}
	}
	return m
}

// mkOp builds an operation with its reference effect and its encoded payload; nil when the payload
// is not a schema-conforming combination.
func (sp *c13Space) mkOp(kind byte, path core.Path, tk string, atoms []*core.Atom, enc string) *c13Op {
	op := &c13Op{Kind: kind, Path: path, TK: tk, Atoms: atoms, Enc: enc}
	if kind == 'D' {
		op.Atoms, op.Enc = nil, ""
		return op
	}
	jsonTV := func(v interface{}) *gpb.TypedValue {
		b, err := json.Marshal(v)
		if err != nil {
			panic(err)
		}
		return &gpb.TypedValue{Value: &gpb.TypedValue_JsonIetfVal{JsonIetfVal: b}}
	}
	switch enc {
	case "scalar", "json":
		if len(atoms) != 1 || sp.atomModel[atoms[0].ID] == nil {
			return nil
		}
		op.pm = sp.atomModel[atoms[0].ID]
		if enc == "json" {
			op.tv = core.RefJSONIETF(atoms[0].Val)
		} else {
			op.tv = core.RefTypedValue(atoms[0].Val)
		}
	case "key":
		if len(atoms) != 1 || sp.atomModel[atoms[0].ID] == nil {
			return nil
		}
		op.pm = sp.atomModel[atoms[0].ID]
		v, ok := op.pm.Leaves[path.String()]
		if !ok {
			return nil
		}
		op.tv = core.RefTypedValue(v)
	case "tree", "tree-nokeys":
		pm := sp.createModel(path)
		if pm == nil {
			return nil
		}
		own := map[string]bool{}
		for k := range pm.Leaves {
			if path.Covers(pm.Paths[k]) {
				own[k] = true // key leaves of the target entry itself
			}
		}
		if len(atoms) > 0 {
			t, err := sp.p.Build(atoms)
			if err != nil {
				return nil
			}
			c13Overlay(pm, sp.p.Observe(t))
		}
		op.pm = pm
		var omit func(string) bool
		if enc == "tree-nokeys" {
			omit = func(l string) bool { return own[l] }
		}
		op.tv = jsonTV(core.RefJSONTree(pm, path, omit))
	case "list":
		t, err := sp.p.Build(atoms)
		if err != nil || len(atoms) == 0 {
			return nil
		}
		op.pm = sp.p.Observe(t)
		obj := core.RefJSONTree(op.pm, path[:len(path)-1], nil)
		op.tv = jsonTV(obj[path[len(path)-1].Name])
	default:
		return nil
	}
	if op.Enc == "tree" || op.Enc == "tree-nokeys" || op.Enc == "list" {
		ts := op.Path.String()
		for _, es := range core.SortedKeys(op.pm.Entries) {
			ep := op.pm.Paths[es]
			if sp.ordered[namesOf(ep)] && len(ep) >= len(op.Path) && es != ts && op.Path.Covers(ep) {
				op.ordInside = append(op.ordInside, es)
			}
		}
	}
	return op
}

func related(a, b core.Path) bool { return a.Covers(b) || b.Covers(a) }

func (sp *c13Space) buildOps() {
	atoms := sp.p.Atoms()
	onFocusChain := func(q core.Path) bool {
		if len(q) == 0 {
			return true
		}
		for _, a := range sp.focus2 {
			if q.Covers(a.Path) {
				return true
			}
		}
		return false
	}
	add := func(op *c13Op, foc, small bool) {
		if op == nil {
			return
		}
		op.foc, op.small = foc, foc && small
		op.id = len(sp.ops)
		sp.ops = append(sp.ops, op)
		if op.foc {
			sp.a2 = append(sp.a2, op)
		}
		if op.small {
			sp.a3 = append(sp.a3, op)
		}
	}
	for _, tg := range sp.targets {
		T := tg.Path
		chain := onFocusChain(T)
		add(sp.mkOp('D', T, tg.TK, nil, ""), chain, true)
		switch tg.TK {
		case "leaf", "leaflist":
			for _, a := range atoms {
				if (a.Kind == "leaf" || a.Kind == "leaflist") && payloadAtom(a) && a.Path.String() == T.String() {
					for _, enc := range []string{"scalar", "json"} {
						for _, k := range []byte{'R', 'U'} {
							add(sp.mkOp(k, T, tg.TK, []*core.Atom{a}, enc), sp.isFocus2[a.ID], true)
						}
					}
				}
			}
		case "root", "container", "presence", "entry", "olentry":
			var under, underF []*core.Atom
			for _, a := range atoms {
				if payloadAtom(a) && T.Covers(a.Path) && len(a.Path) > len(T) {
					under = append(under, a)
					if sp.isFocus2[a.ID] {
						underF = append(underF, a)
					}
				}
			}
			// the small alphabet keeps two one-atom payloads per target: the first child and the deepest descendant
			var first, deepest *core.Atom
			maxd := 0
			for _, a := range underF {
				d := sp.depthBelow(T, a)
				if first == nil && d == 1 {
					first = a
				}
				if d > maxd {
					maxd, deepest = d, a
				}
			}
			isEntry := tg.TK == "entry" || tg.TK == "olentry"
			for _, k := range []byte{'R', 'U'} {
				add(sp.mkOp(k, T, tg.TK, nil, "tree"), chain, true)
				if isEntry {
					add(sp.mkOp(k, T, tg.TK, nil, "tree-nokeys"), chain, true)
				}
				for _, a := range under {
					add(sp.mkOp(k, T, tg.TK, []*core.Atom{a}, "tree"), chain && sp.isFocus2[a.ID] && (sp.depthBelow(T, a) <= 2 || a == deepest), a == first || a == deepest)
					if isEntry && sp.isFocus2[a.ID] {
						add(sp.mkOp(k, T, tg.TK, []*core.Atom{a}, "tree-nokeys"), false, false)
					}
				}
				for i, a := range under {
					for j, b := range under {
						if i == j || (i > j && !(a.Ord && b.Ord)) || !sp.pairPayload(T, a, b) {
							continue
						}
						both := sp.isFocus2[a.ID] && sp.isFocus2[b.ID]
						if !both && !(a.Focus && b.Focus && a.Nested && b.Nested) {
							continue // outside lists only the focused pairs
						}
						add(sp.mkOp(k, T, tg.TK, []*core.Atom{a, b}, "tree"), chain && both, a.Ord && b.Ord && a.Kind == "entry" && b.Kind == "entry")
					}
				}
			}
		case "list", "ollist":
			for _, a := range atoms {
				if a.Kind == "entry" && T.Covers(a.Path) && len(a.Path) == len(T) {
					add(sp.mkOp('R', T, tg.TK, []*core.Atom{a}, "list"), chain, true)
					break
				}
			}
		}
	}
	// key leaves written by path (what TogNMINotifications emits for every list entry)
	for _, a := range atoms {
		if a.Kind != "entry" || sp.atomModel[a.ID] == nil {
			continue
		}
		m := sp.atomModel[a.ID]
		for _, ls := range core.SortedKeys(m.Leaves) {
			if lp := m.Paths[ls]; a.Path.Covers(lp) {
				add(sp.mkOp('U', lp, "keyleaf", []*core.Atom{a}, "key"), sp.isFocus2[a.ID], true)
			}
		}
	}
}

// depthBelow: number of struct-field steps from the node at T down to the atom's own node.
func (sp *c13Space) depthBelow(T core.Path, x *core.Atom) int {
	n := 0
	for _, b := range sp.p.AtomBounds(x) {
		if b > len(T) {
			n++
		}
	}
	return n
}

// pairPayload selects the two-atom tree payloads: the two atoms must belong to the same list or
// have the same parent node (two entries of one list, leaves of two entries of one list, an entry and
// a leaf of ANOTHER entry, two sibling leaves / containers), and the payload is offered only at the
// deepest struct node that holds both (the payload then exercises merging at that node) and, for
// ordered-by-user lists, also at the root.
func (sp *c13Space) pairPayload(T core.Path, a, b *core.Atom) bool {
	grp := func(x *core.Atom) string {
		if x.Kind == "entry" {
			return namesOf(x.Path)
		}
		return namesOf(x.Path[:len(x.Path)-1])
	}
	if grp(a) != grp(b) || a.Path.Covers(b.Path) || b.Path.Covers(a.Path) {
		return false
	}
	if len(T) == 0 && a.Ord && b.Ord {
		return true
	}
	// T is the deepest common struct ancestor iff no deeper struct bound of a covers b
	for _, n := range sp.p.AtomBounds(a) {
		if n > len(T) && n < len(a.Path) && a.Path[:n].Covers(b.Path) {
			return false
		}
	}
	return true
}

// ---- execution --------------------------------------------------------------------------------------

type c13Res struct {
	clause  string // "" = no violation
	detail  string
	outcome string
	op      *c13Op    // for error-on-present-data
	dup     core.Path // for duplicate-list-entry
	changed bool
}

func isPanic(err error) bool { return err != nil && strings.HasPrefix(err.Error(), "PANIC") }

// standalone reports the error (text) of the single update op applied to an empty tree, "" if accepted.
func (sp *c13Space) standalone(op *c13Op) string {
	if op.Kind == 'D' {
		return ""
	}
	op.rejOnce.Do(func() {
		u := &c13Op{Kind: 'U', Path: op.Path, TK: op.TK, Atoms: op.Atoms, Enc: op.Enc, pm: op.pm, tv: op.tv}
		if op.Enc == "list" {
			u.Kind = 'R'
		}
		t := sp.p.NewRoot()
		sch := &ytypes.Schema{Root: t, SchemaTree: sp.p.Schema().SchemaTree, Unmarshal: sp.p.Schema().Unmarshal}
		rq := &c13Req{Ops: []*c13Op{u}, PfxNil: true}
		if err := safeErr(func() error { return ytypes.UnmarshalSetRequest(sch, rq.setRequest()) }); err != nil {
			op.rejErr = err.Error()
			if op.rejErr == "" {
				op.rejErr = "error"
			}
		}
	})
	return op.rejErr
}

// check runs one history from the state built by atoms and compares with the reference after each request.
func (sp *c13Space) check(atoms []*core.Atom, seq *c13Seq) c13Res {
	return sp.checkFrom(atoms, nil, seq)
}

// checkFrom is check with the (immutable) observed model of the start state supplied by the caller.
func (sp *c13Space) checkFrom(atoms []*core.Atom, start *core.Model, seq *c13Seq) c13Res {
	p := sp.p
	for _, rq := range seq.Reqs {
		for _, op := range rq.Ops {
			if op.Enc != "list" && sp.standalone(op) != "" {
				return c13Res{outcome: "excluded-payload-rejected-standalone"}
			}
		}
	}
	t, err := p.Build(atoms)
	if err != nil {
		return c13Res{outcome: "skipped-conflict"}
	}
	if start == nil {
		start = p.Observe(t)
	}
	ref := start.Clone()
	sch := &ytypes.Schema{Root: t.(ygot.GoStruct), SchemaTree: p.Schema().SchemaTree, Unmarshal: p.Schema().Unmarshal}
	changed := false
	judge := func(reqs []*c13Req, run func() error) *c13Res {
		var wild []c13Wild
		var cleared []core.Path
		for _, rq := range reqs {
			excl, w, cl := sp.refApply(ref, rq)
			if excl != "" {
				return &c13Res{outcome: "excluded-" + excl}
			}
			wild = append(wild, w...)
			cleared = append(cleared, cl...)
		}
		err := safeErr(run)
		if isPanic(err) {
			return &c13Res{clause: "panic", detail: err.Error()}
		}
		if err != nil {
			for _, w := range wild {
				if w.present {
					return &c13Res{clause: "error-on-present-data", op: w.op, detail: fmt.Sprintf("%c %s holds data but the request failed: %v", w.op.Kind, w.op.Path, err)}
				}
			}
			if len(wild) > 0 {
				return &c13Res{outcome: "excluded-error-on-list-path-without-data"}
			}
			return &c13Res{clause: "error-on-valid-request", detail: err.Error()}
		}
		if sp.idKeyed {
			if q, dup := c13FindDup(p, reflect.ValueOf(t).Elem(), nil); dup {
				return &c13Res{clause: "duplicate-list-entry", dup: q, detail: fmt.Sprintf("the list holds two entries with the key of %s after the request (the payload entry was not merged into the existing entry)", q)}
			}
		}
		got := p.Observe(t)
		if cl, d := c13Compare(ref, got, cleared); cl != "" {
			return &c13Res{clause: "model-differs(" + cl + ")", detail: d}
		}
		if !changed && !c13SameData(got, start) {
			changed = true
		}
		return nil
	}
	if seq.OneCall {
		var ns []*gpb.Notification
		for _, rq := range seq.Reqs {
			ns = append(ns, rq.notification())
		}
		var opts []ytypes.UnmarshalOpt
		for _, rq := range seq.Reqs {
			if len(rq.Unknown) > 0 {
				opts = []ytypes.UnmarshalOpt{&ytypes.IgnoreExtraFields{}}
			}
		}
		if r := judge(seq.Reqs, func() error { return ytypes.UnmarshalNotifications(sch, ns, opts...) }); r != nil {
			return *r
		}
	} else {
		for i, rq := range seq.Reqs {
			rq := rq
			var opts []ytypes.UnmarshalOpt
			if len(rq.Unknown) > 0 {
				opts = []ytypes.UnmarshalOpt{&ytypes.IgnoreExtraFields{}}
			}
			run := func() error { return ytypes.UnmarshalSetRequest(sch, rq.setRequest(), opts...) }
			if rq.Notif {
				run = func() error {
					return ytypes.UnmarshalNotifications(sch, []*gpb.Notification{rq.notification()}, opts...)
				}
			}
			if r := judge([]*c13Req{rq}, run); r != nil {
				if r.clause != "" && len(seq.Reqs) > 1 {
					r.detail = fmt.Sprintf("request #%d: %s", i+1, r.detail)
				}
				return *r
			}
		}
	}
	if changed {
		return c13Res{outcome: "ok-changed", changed: true}
	}
	return c13Res{outcome: "ok-unchanged"}
}

// c13FindDup looks for a keyed list (Go map) that holds two entries with the same canonical key. That
// can only happen when the Go map key is compared by identity (wrapper unions: the key is an interface
// holding a pointer); the Model cannot represent it (the observer would show one of the two entries,
// depending on map iteration order), so it is checked on the Go tree itself.
func c13FindDup(p *core.Pkg, sv reflect.Value, prefix core.Path) (core.Path, bool) {
	st := sv.Type()
	for i := 0; i < st.NumField(); i++ {
		f := st.Field(i)
		alts := core.TagPaths(f)
		if alts == nil {
			continue
		}
		fv := sv.Field(i)
		switch core.KindOfField(f.Type) {
		case core.FContainer:
			if !fv.IsNil() {
				if q, ok := c13FindDup(p, fv.Elem(), prefix.Names(alts[0]...)); ok {
					return q, true
				}
			}
		case core.FKeyedList:
			keyNames := p.ListKeyNames(f.Type.Elem())
			seen := map[string]bool{}
			for _, k := range fv.MapKeys() {
				kv := p.KeyKVs(k, keyNames)
				ep := prefix.Names(alts[0]...)
				ep[len(ep)-1].Keys = kv
				if seen[ep.String()] {
					return ep, true
				}
				seen[ep.String()] = true
				if ev := fv.MapIndex(k); !ev.IsNil() {
					if q, ok := c13FindDup(p, ev.Elem(), ep); ok {
						return q, true
					}
				}
			}
		case core.FOrderedList:
			if fv.IsNil() {
				continue
			}
			vals := fv.MethodByName("Values").Call(nil)[0]
			for j := 0; j < vals.Len(); j++ {
				if ev := vals.Index(j); !ev.IsNil() {
					if q, ok := c13FindDup(p, ev.Elem(), prefix.Names(alts[0]...)); ok {
						return q, true
					}
				}
			}
		}
	}
	return nil, false
}

// identityKeyed reports whether some keyed list of the package uses a Go map key that is compared by
// identity rather than by value (an interface, or a key struct with an interface field).
func identityKeyed(t reflect.Type, seen map[reflect.Type]bool) bool {
	for t.Kind() == reflect.Ptr {
		t = t.Elem()
	}
	if t.Kind() != reflect.Struct || seen[t] {
		return false
	}
	seen[t] = true
	for i := 0; i < t.NumField(); i++ {
		ft := t.Field(i).Type
		switch core.KindOfField(ft) {
		case core.FContainer:
			if identityKeyed(ft, seen) {
				return true
			}
		case core.FKeyedList:
			kt := ft.Key()
			if kt.Kind() == reflect.Interface {
				return true
			}
			if kt.Kind() == reflect.Struct {
				for j := 0; j < kt.NumField(); j++ {
					if kt.Field(j).Type.Kind() == reflect.Interface {
						return true
					}
				}
			}
			if identityKeyed(ft.Elem(), seen) {
				return true
			}
		case core.FOrderedList:
			if m, ok := ft.MethodByName("Values"); ok && identityKeyed(m.Type.Out(0).Elem(), seen) {
				return true
			}
		}
	}
	return false
}

// ---- shapes, cases, minimisation ------------------------------------------------------------------

func (sp *c13Space) opShape(op *c13Op) string {
	s := string(op.Kind) + ":" + pathShapeP(sp.p, op.Path)
	if len(op.Path) == 0 {
		s += "/"
	}
	switch op.Enc {
	case "":
	case "scalar", "json":
		s += "=" + valueKind(op.Atoms[0].Val) + "@" + op.Enc
	case "key":
		s += "=key@scalar"
	default:
		var as []string
		for _, a := range op.Atoms {
			as = append(as, shapeName(a))
		}
		s += "{" + strings.Join(as, ",") + "}@" + op.Enc
	}
	return s
}

func (sp *c13Space) seqShape(seq *c13Seq) string {
	var rs []string
	for _, rq := range seq.Reqs {
		s := "pfx=nil"
		if !rq.PfxNil {
			s = "pfx=" + pathShapeP(sp.p, rq.Prefix)
			if len(rq.Prefix) == 0 {
				s += "/"
			}
		}
		if rq.Notif {
			s += " notif"
		}
		if rq.Atomic {
			s += " atomic"
		}
		for _, u := range rq.Unknown {
			s += " U(unknown-leaf-below)" + pathShapeP(sp.p, u) + "+IgnoreExtraFields"
		}
		for _, op := range rq.Ops {
			s += " " + sp.opShape(op)
		}
		rs = append(rs, s)
	}
	out := strings.Join(rs, " ; ")
	if seq.OneCall {
		out += " (one call)"
	}
	return out
}

type c13OpCase struct {
	Kind  string    `json:"kind"`
	Path  core.Path `json:"path"`
	TK    string    `json:"tk"`
	Atoms []string  `json:"atoms,omitempty"`
	Enc   string    `json:"enc,omitempty"`
}
type c13ReqCase struct {
	Ops     []c13OpCase `json:"ops"`
	PfxNil  bool        `json:"prefix_nil,omitempty"`
	Prefix  core.Path   `json:"prefix,omitempty"`
	Notif   bool        `json:"notification,omitempty"`
	Atomic  bool        `json:"atomic,omitempty"`
	Unknown []core.Path `json:"unknown_leaf_below,omitempty"`
}
type c13Case struct {
	Pkg     string       `json:"pkg"`
	Atoms   []string     `json:"atoms"`
	Reqs    []c13ReqCase `json:"requests"`
	OneCall bool         `json:"one_call,omitempty"`
	Text    string       `json:"text,omitempty"`
}

func (sp *c13Space) caseOf(atoms []*core.Atom, seq *c13Seq) c13Case {
	cs := c13Case{Pkg: sp.p.Name, Atoms: atomNames(atoms), OneCall: seq.OneCall}
	for _, rq := range seq.Reqs {
		rc := c13ReqCase{PfxNil: rq.PfxNil, Prefix: rq.Prefix, Notif: rq.Notif, Atomic: rq.Atomic, Unknown: rq.Unknown}
		for _, op := range rq.Ops {
			rc.Ops = append(rc.Ops, c13OpCase{Kind: string(op.Kind), Path: op.Path, TK: op.TK, Atoms: atomNames(op.Atoms), Enc: op.Enc})
		}
		cs.Reqs = append(cs.Reqs, rc)
		if rq.Notif {
			cs.Text += fmt.Sprint(rq.notification()) + " ; "
		} else {
			cs.Text += fmt.Sprint(rq.setRequest()) + " ; "
		}
	}
	return cs
}

func (sp *c13Space) seqOf(cs c13Case) (*c13Seq, bool) {
	seq := &c13Seq{OneCall: cs.OneCall}
	for _, rc := range cs.Reqs {
		rq := &c13Req{PfxNil: rc.PfxNil, Prefix: rc.Prefix, Notif: rc.Notif, Atomic: rc.Atomic, Unknown: rc.Unknown}
		for _, oc := range rc.Ops {
			as, ok := sp.p.AtomsByName(oc.Atoms)
			if !ok || len(oc.Kind) != 1 {
				return nil, false
			}
			op := sp.mkOp(oc.Kind[0], oc.Path, oc.TK, as, oc.Enc)
			if op == nil {
				return nil, false
			}
			rq.Ops = append(rq.Ops, op)
		}
		seq.Reqs = append(seq.Reqs, rq)
	}
	return seq, true
}

// c13Minimise greedily shrinks state, history, requests and payloads while the same clause fails.
func (sp *c13Space) minimise(atoms []*core.Atom, seq *c13Seq, clause string) ([]*core.Atom, *c13Seq, c13Res) {
	res := sp.check(atoms, seq)
	if res.clause != clause {
		return atoms, seq, c13Res{clause: "unstable", detail: "violation observed once but not on re-execution (map-order dependent outcome)"}
	}
	try := func(a []*core.Atom, s *c13Seq) bool {
		if r := sp.check(a, s); r.clause == clause {
			atoms, seq, res = a, s, r
			return true
		}
		return false
	}
	cloneSeq := func(s *c13Seq) *c13Seq {
		n := &c13Seq{OneCall: s.OneCall}
		for _, rq := range s.Reqs {
			c := *rq
			c.Ops = append([]*c13Op(nil), rq.Ops...)
			n.Reqs = append(n.Reqs, &c)
		}
		return n
	}
	for changed := true; changed; {
		changed = false
		for i := range atoms {
			if try(append(append([]*core.Atom{}, atoms[:i]...), atoms[i+1:]...), seq) {
				changed = true
				break
			}
		}
		if changed {
			continue
		}
		for i := range seq.Reqs {
			if len(seq.Reqs) > 1 {
				n := cloneSeq(seq)
				n.Reqs = append(n.Reqs[:i], n.Reqs[i+1:]...)
				if try(atoms, n) {
					changed = true
					break
				}
			}
			for j := range seq.Reqs[i].Ops {
				if len(seq.Reqs[i].Ops) == 1 && !seq.Reqs[i].Atomic {
					continue
				}
				n := cloneSeq(seq)
				n.Reqs[i].Ops = append(n.Reqs[i].Ops[:j], n.Reqs[i].Ops[j+1:]...)
				if try(atoms, n) {
					changed = true
					break
				}
			}
			if changed {
				break
			}
			for j, op := range seq.Reqs[i].Ops {
				if (op.Enc != "tree" && op.Enc != "tree-nokeys") || len(op.Atoms) == 0 {
					continue
				}
				for x := range op.Atoms {
					na := append(append([]*core.Atom{}, op.Atoms[:x]...), op.Atoms[x+1:]...)
					nop := sp.mkOp(op.Kind, op.Path, op.TK, na, op.Enc)
					if nop == nil {
						continue
					}
					n := cloneSeq(seq)
					n.Reqs[i].Ops[j] = nop
					if try(atoms, n) {
						changed = true
						break
					}
				}
				if changed {
					break
				}
			}
			if changed {
				break
			}
			if rq := seq.Reqs[i]; !rq.PfxNil && !rq.Atomic {
				n := cloneSeq(seq)
				n.Reqs[i].PfxNil, n.Reqs[i].Prefix = true, nil
				if try(atoms, n) {
					changed = true
					break
				}
			}
			if rq := seq.Reqs[i]; rq.Notif && !rq.Atomic && !seq.OneCall {
				n := cloneSeq(seq)
				n.Reqs[i].Notif = false
				if try(atoms, n) {
					changed = true
					break
				}
			}
		}
	}
	return atoms, seq, res
}

// ---- the explorer -----------------------------------------------------------------------------------

type c13State struct {
	atoms []*core.Atom
	key   string
	model *core.Model // observed model of the state (read-only)
}

func (sp *c13Space) stateOf(atoms []*core.Atom, key string) c13State {
	st := c13State{atoms: atoms, key: key}
	if t, err := sp.p.Build(atoms); err == nil {
		st.model = sp.p.Observe(t)
	}
	return st
}

// as returns a copy of the op with another kind.
func (o *c13Op) as(kind byte) *c13Op {
	return &c13Op{Kind: kind, Path: o.Path, TK: o.TK, Atoms: o.Atoms, Enc: o.Enc, pm: o.pm, tv: o.tv, ordInside: o.ordInside, foc: o.foc, id: o.id}
}

type c13Run struct {
	c         *core.Ctx
	sp        *c13Space
	seen      sync.Map // pre-signature -> true (only the first case of a class is minimised)
	minimised int64
}

// debug aid: C13_DEBUG=count enumerates without executing (sizes of the phases)
var c13CountOnly = os.Getenv("C13_DEBUG") == "count"

// c13MaxMinimise bounds the cost of minimisation per package when a defect hits very many shapes.
const c13MaxMinimise = 200

type c13Tally struct {
	outcomes   map[string]int64
	evals      int64
	nontrivial int64
}

func (r *c13Run) flush(t *c13Tally) {
	for k, n := range t.outcomes {
		r.c.R.OutcomeN(k, n)
	}
	r.c.R.Add("evaluations", t.evals)
	r.c.R.Add("transitions", t.evals)
	r.c.R.Add("traces_validated_against_impl", t.evals)
	r.c.R.Add("nontrivial_cases", t.nontrivial)
	t.outcomes, t.evals, t.nontrivial = map[string]int64{}, 0, 0
}

// eval runs one case and reports it.
func (r *c13Run) eval(t *c13Tally, st c13State, seq *c13Seq) {
	sp := r.sp
	atoms := st.atoms
	if c13CountOnly {
		t.evals++
		return
	}
	res := sp.checkFrom(atoms, st.model, seq)
	t.evals++
	if wild := seqWild(seq); res.clause == "" && len(wild) > 0 {
		// ygot walks Go maps when a list is addressed without all keys: the answer may depend on the
		// iteration order. Such cases are executed several times (8 when only part of the keys is given,
		// where the order of the key NAMES matters); differing answers are a violation of their own.
		n := 2
		var shapes []string
		for _, op := range wild {
			if op.TK == "partial" {
				n = 7
			}
			shapes = append(shapes, string(op.Kind)+" "+pathShapeP(sp.p, op.Path))
		}
		for i := 0; i < n; i++ {
			if r2 := sp.checkFrom(atoms, st.model, seq); r2.outcome != res.outcome || r2.clause != res.clause {
				t.outcomes["violation"]++
				r.c.R.Violation("unstable-outcome:"+strings.Join(shapes, " "), fmt.Sprintf("the same request on the same tree answered %q and then %q (depends on Go map iteration order)", res.outcome+res.clause, r2.outcome+r2.clause), sp.caseOf(atoms, seq))
				return
			}
		}
	}
	if res.clause == "" {
		t.outcomes[res.outcome]++
		if res.changed {
			t.nontrivial++
			r.c.R.NonTrivial(sp.caseKey(st, seq))
		}
		return
	}
	t.outcomes["violation"]++
	if res.clause == "error-on-present-data" {
		// one signature per addressed list shape, independent of state and of the rest of the request
		sig := fmt.Sprintf("error-on-present-data:%c %s", res.op.Kind, pathShapeP(sp.p, res.op.Path))
		r.c.R.Violation(sig, res.detail, sp.caseOf(atoms, seq))
		return
	}
	if res.clause == "duplicate-list-entry" {
		// one signature per list and key kind, independent of state and request
		r.c.R.Violation("duplicate-list-entry:"+pathShapeP(sp.p, res.dup), res.detail, sp.caseOf(atoms, seq))
		return
	}
	pre := res.clause + ":" + sigFor("", atoms) + " :: " + sp.seqShape(seq)
	if _, dup := r.seen.LoadOrStore(pre, true); dup {
		r.c.R.Add("violating_cases_of_already_reported_shape", 1)
		return
	}
	if atomic.AddInt64(&r.minimised, 1) > c13MaxMinimise {
		// nothing is dropped: beyond the cap the case is reported with its unminimised shape
		kinds := ""
		for i, rq := range seq.Reqs {
			if i > 0 {
				kinds += ";"
			}
			for _, op := range rq.Ops {
				kinds += string(op.Kind)
			}
			if rq.Atomic {
				kinds += "(atomic)"
			}
		}
		r.c.R.Violation("unminimised-"+res.clause+":"+kinds, res.detail+" [shape "+pre+"]", sp.caseOf(atoms, seq))
		return
	}
	ma, ms, mres := sp.minimise(atoms, seq, res.clause)
	if mres.clause == "unstable" {
		ma, ms, mres = atoms, seq, res
		mres.clause = "unstable-" + res.clause
	}
	sig := mres.clause + sigFor("", ma) + " :: " + sp.seqShape(ms)
	r.c.R.Violation(sig, mres.detail+" [first seen as "+pre+"]", sp.caseOf(ma, ms))
}

// caseKey identifies a case of the enumeration (package, state, requests) cheaply.
func (sp *c13Space) caseKey(st c13State, seq *c13Seq) string {
	b := make([]byte, 0, 96)
	b = append(b, sp.p.Name...)
	b = append(b, st.key...)
	for _, rq := range seq.Reqs {
		b = append(b, '|')
		if rq.PfxNil {
			b = append(b, 'n')
		} else {
			b = strconv.AppendInt(b, int64(len(rq.Prefix)), 10)
		}
		if rq.Notif {
			b = append(b, 'N')
		}
		if rq.Atomic {
			b = append(b, 'A')
		}
		for _, op := range rq.Ops {
			b = append(b, op.Kind)
			b = strconv.AppendInt(b, int64(op.id), 10)
		}
	}
	if seq.OneCall {
		b = append(b, '1')
	}
	return string(b)
}

func seqWild(seq *c13Seq) []*c13Op {
	var out []*c13Op
	for _, rq := range seq.Reqs {
		for _, op := range rq.Ops {
			if c13WildTK(op.TK) {
				out = append(out, op)
			}
		}
	}
	return out
}

func one(ops ...*c13Op) *c13Seq { return &c13Seq{Reqs: []*c13Req{{Ops: ops, PfxNil: true}}} }

func kindRank(k byte) int {
	switch k {
	case 'D':
		return 0
	case 'R':
		return 1
	}
	return 2
}

// canonical reports whether (a, b) in this order is the canonical arrangement of the two-op request:
// the message carries deletes, replaces and updates in separate lists, so only the relative order of
// two ops of the SAME kind is part of the request.
func canonical(a, b *c13Op) bool {
	if a.Kind == b.Kind {
		return true
	}
	return kindRank(a.Kind) < kindRank(b.Kind)
}

func lcp(ops ...*c13Op) core.Path {
	if len(ops) == 0 {
		return nil
	}
	pre := ops[0].Path
	for _, o := range ops[1:] {
		n := 0
		for n < len(pre) && n < len(o.Path) && pre[:n+1].String() == o.Path[:n+1].String() {
			n++
		}
		pre = pre[:n]
	}
	return pre
}

// chainOps: the ops whose target and payload all lie on the chain root -> P -> below P.
func (sp *c13Space) chainOps(P core.Path) []*c13Op { return sp.chainOpsOf(P, nil) }

// chainOpsOf with keep != nil restricts the payload atoms to those keep accepts.
func (sp *c13Space) chainOpsOf(P core.Path, keep func(*core.Atom) bool) []*c13Op {
	var out []*c13Op
	for _, op := range sp.ops {
		tp := op.Path
		if op.TK == "keyleaf" {
			tp = op.Atoms[0].Path // writing a key leaf addresses the entry
		}
		if !related(tp, P) || len(op.Atoms) > 1 {
			continue
		}
		ok := true
		for _, a := range op.Atoms {
			if !related(a.Path, P) || (keep != nil && !keep(a)) {
				ok = false
			}
		}
		if ok {
			out = append(out, op)
		}
	}
	return out
}

func c13Pkgs(c *core.Ctx) []*core.Pkg {
	if c.Thorough() {
		return core.Packages()
	}
	var out []*core.Pkg
	for _, n := range []string{"vtus", "vtuw", "voccs"} {
		if p := core.PkgByName(n); p != nil {
			out = append(out, p)
		}
	}
	return out
}

func runC13(c *core.Ctx) {
	c.Level = "model_checking"
	c.Rule = "transition oracle over gNMI Set histories: states = every tree of the explicit-state search with k<=1 atoms over the full atom alphabet (thorough: plus k<=2 over the focus atoms). Op alphabets derived from the atoms: delete p / replace p:=payload / update p:=payload, p over root, containers, presence containers, list entries, ordered-list entries and their surrounding containers, whole lists, partial keys, leaves, leaf-lists, key leaves; payload = scalar TypedValue, JSON_IETF scalar, or reference RFC 7951 JSON of a sub-tree with <=2 atoms (full alphabet A1; focused A2 = one representative atom per structural position; small A3). Enumerated: (1) single-op requests: from the empty state all of A1, from every other state every A1 op on the chain of the state's data, from states of focus atoms also all of A2; (2) every split of the path into prefix + path (nil, empty, every container / list-entry boundary, whole path) for A2/A3 from the focused states; (3) every canonical 2-op request over A3 from the empty state, and from the focused states those with overlapping paths touching the state (same path twice, child then ancestor, ancestor then child), each also with the common prefix and as a history of 2 requests; (4) from states of focus atoms all 2-op requests and 2-request histories of A1 restricted to the chain of the state's node; (5) Notifications through UnmarshalNotifications: Atomic at ordered-list prefixes with every sequence of <=2 (thorough <=3) leaf updates from every relevant state, Atomic at every container / list-entry prefix, plain delete+update, two notifications in one call; (6) thorough: 3-op requests over A3 with pairwise overlapping paths. Each case is executed on a fresh real tree and the observed Model is compared after every request with reference semantics written on core.Model (join prefix; deletes in order; each replace = delete subtree + write payload; each update = merge; leaf-lists wholesale, list entries by key, new ordered entries appended). non-trivial = a history that succeeds and changes the state"
	c.R.Assume("builder / observer correct (Observe(Build([a])) is what writing atom a creates: the leaf, the list entries on the way with their key leaves, presence containers on the way); reference encoders core.RefTypedValue / RefJSONScalar / RefJSONTree produce type-correct payloads")
	c.R.Assume("payloads that ygot rejects as a single update on the empty tree are outside this property (C02/C10/C16/C18 own them); they are listed in the evidence and any rejection outside the documented classes is reported")
	for _, p := range c13Pkgs(c) {
		if c.Expired() {
			break
		}
		c13RunPkg(c, p)
	}
}

// c13RejectionOwned names the property that owns a standalone rejection (documented / already recorded
// defects of ygot's decoders, see NOTES-C13.md); "" when the rejection belongs to no such class. The
// class is decided by the payload, the error text only confirms it.
func c13RejectionOwned(sp *c13Space, op *c13Op, err string) string {
	for _, a := range op.Atoms {
		if a.Val == "empty" && op.Enc == "scalar" && strings.Contains(err, "into empty") {
			return "C02:empty-leaf-as-bool_val"
		}
		if sp.p.Wrapper && a.Val.Kind() == "bin" && a.Entry != nil && a.Entry.Type != nil && a.Entry.Type.Kind == yang.Yunion {
			return "C01/C02:binary-member-of-wrapper-union"
		}
	}
	return ""
}

func c13RunPkg(c *core.Ctx, p *core.Pkg) {
	sp := c13SpaceOf(p)
	run := &c13Run{c: c, sp: sp}
	full := core.Explore(p, p.Atoms(), 1)
	type state = c13State
	var states []state
	for _, st := range full.States {
		states = append(states, sp.stateOf(full.SeqAtoms(st), string(st.Key[:])))
	}
	if c.Thorough() {
		foc := core.FocusAtoms(p.Atoms())
		sp2 := core.Explore(p, foc, 2)
		for _, st := range sp2.States {
			if len(st.Seq) == 2 {
				states = append(states, sp.stateOf(sp2.SeqAtoms(st), string(st.Key[:])))
			}
		}
	}
	var focStates []state
	focStates = append(focStates, sp.stateOf(nil, "empty"))
	for _, a := range sp.focus2 {
		focStates = append(focStates, sp.stateOf([]*core.Atom{a}, "f2:"+a.Name))
	}
	if c.Thorough() {
		sp3 := core.Explore(p, sp.focus2, 2)
		for _, st := range sp3.States {
			if len(st.Seq) == 2 {
				focStates = append(focStates, sp.stateOf(sp3.SeqAtoms(st), "f2:"+string(st.Key[:])))
			}
		}
	}
	c.R.Add("states", int64(len(states)))

	// pre-pass: which payloads does ygot accept as a single update on the empty tree?
	rejected := map[string]int{}
	var rejMu sync.Mutex
	core.ParallelFor(len(sp.ops), func(i int) {
		op := sp.ops[i]
		if op.Kind == 'D' || op.Enc == "list" {
			return
		}
		if e := sp.standalone(op); e != "" {
			owner := c13RejectionOwned(sp, op, e)
			u := op.as('U')
			if strings.HasPrefix(e, "PANIC") {
				c.R.Violation("panic:: "+sp.seqShape(one(u)), e, sp.caseOf(nil, one(u)))
				return
			}
			if owner == "" {
				c.R.Violation("update-rejected-standalone:: "+sp.seqShape(one(u)), "a single update with a type-correct reference payload on the empty tree fails: "+e, sp.caseOf(nil, one(u)))
				owner = "unowned"
			}
			rejMu.Lock()
			rejected[owner+" "+sp.opShape(u)]++
			rejMu.Unlock()
		}
	})
	nA2 := len(sp.a2)
	c.R.Note("space_"+p.Name, map[string]interface{}{"states": len(states), "focused_states": len(focStates), "targets": len(sp.targets),
		"ops_full_alphabet": len(sp.ops), "ops_focused_alphabet": nA2, "ops_small_alphabet": len(sp.a3), "focus2_atoms": atomNames(sp.focus2), "payloads_rejected_standalone": rejected})
	if os.Getenv("C13_DEBUG") != "" {
		fmt.Fprintf(os.Stderr, "%s: states=%d foc=%d targets=%d A1=%d A2=%d A3=%d rejected=%d\n", p.Name, len(states), len(focStates), len(sp.targets), len(sp.ops), nA2, len(sp.a3), len(rejected))
	}
	phase := func(name string, n int, fn func(t *c13Tally, i int)) {
		if c.Expired() {
			return
		}
		before := c.R.Get("evaluations")
		core.ParallelFor(n, func(i int) {
			if c.Expired() {
				return
			}
			t := &c13Tally{outcomes: map[string]int64{}}
			fn(t, i)
			run.flush(t)
		})
		c.R.Add("phase_"+name, c.R.Get("evaluations")-before)
	}

	touches := func(st state, q core.Path) bool {
		if len(st.atoms) == 0 {
			return true
		}
		for _, a := range st.atoms {
			if related(q, a.Path) {
				return true
			}
		}
		return false
	}
	pair := func(a, b *c13Op) *c13Seq { return one(a, b) }
	hist := func(a, b *c13Op) *c13Seq {
		return &c13Seq{Reqs: []*c13Req{{Ops: []*c13Op{a}, PfxNil: true}, {Ops: []*c13Op{b}, PfxNil: true}}}
	}
	withPrefix := func(pre core.Path, ops ...*c13Op) *c13Seq {
		return &c13Seq{Reqs: []*c13Req{{Ops: ops, Prefix: pre}}}
	}

	isFocus := func(st state) bool {
		for _, a := range st.atoms {
			if !a.Focus {
				return false
			}
		}
		return true
	}
	// A: single-op requests, nil prefix, from every state. Empty state: the whole full alphabet. Every other
	// state: every op of the full alphabet on the chain of the state's data (target above, at or below it and
	// payload, if any, on the same chain: overwrite / merge / wipe of existing data with every value and
	// encoding) plus the root ops; states built from focus atoms (one per schema node) additionally get the
	// whole focused alphabet (frame: data elsewhere must survive).
	phase("single_op", len(states), func(t *c13Tally, i int) {
		st := states[i]
		if len(st.atoms) == 0 {
			for _, op := range sp.ops {
				run.eval(t, st, one(op))
			}
			return
		}
		done := map[int]bool{}
		for _, a := range st.atoms {
			for _, op := range sp.chainOps(a.Path) {
				if !done[op.id] {
					done[op.id] = true
					run.eval(t, st, one(op))
				}
			}
		}
		if isFocus(st) {
			for _, op := range sp.a2 {
				if !done[op.id] {
					run.eval(t, st, one(op))
				}
			}
		}
	})

	// A': IgnoreExtraFields. From every state, for every struct node on the way to the state's data (the
	// root, containers, list entries; present ones) and for one absent list entry, a request that updates
	// a leaf the schema does not have below that (existing) node, alone and together with each update of the small alphabet;
	// also with the node's path as prefix and as a Notification. The unknown update must be ignored.
	phase("ignore_extra_fields", len(states), func(t *c13Tally, i int) {
		st := states[i]
		seen := map[string]bool{}
		var nodes []core.Path
		add := func(q core.Path) {
			if k := q.String(); !seen[k] {
				seen[k] = true
				nodes = append(nodes, q)
			}
		}
		add(core.Path{})
		for _, a := range st.atoms {
			n := len(a.Path)
			if a.Kind == "unkeyed" {
				continue // entries of a list without keys cannot be addressed
			}
			if a.Kind == "leaf" || a.Kind == "leaflist" || a.Kind == "emptylist" {
				n-- // the last element is not a struct node (a leaf, or a list without keys)
			}
			for l := 1; l <= n; l++ {
				add(a.Path[:l])
			}
		}
		for _, q := range nodes {
			run.eval(t, st, &c13Seq{Reqs: []*c13Req{{PfxNil: true, Unknown: []core.Path{q}}}})
			run.eval(t, st, &c13Seq{Reqs: []*c13Req{{Prefix: q, Unknown: []core.Path{q}}}})
			run.eval(t, st, &c13Seq{Reqs: []*c13Req{{PfxNil: true, Notif: true, Unknown: []core.Path{q}}}})
			if isFocus(st) {
				for _, op := range sp.a3 {
					// updates only: a replace above the node would remove it first, and whether the ignored
					// update may then re-create the (empty) node on its way is not what is judged here
					if op.Kind == 'U' && !c13WildTK(op.TK) {
						run.eval(t, st, &c13Seq{Reqs: []*c13Req{{PfxNil: true, Unknown: []core.Path{q}, Ops: []*c13Op{op}}}})
					}
				}
			}
		}
	})

	// B: every prefix split (empty prefix, every element boundary up to the whole path in the prefix):
	// focused alphabet from the empty state, small alphabet from the focused states the op touches
	phase("prefix_splits", len(focStates), func(t *c13Tally, i int) {
		st := focStates[i]
		ops := sp.a2
		if len(st.atoms) > 0 {
			ops = sp.a3
		}
		for _, op := range ops {
			if !touches(st, op.Path) {
				continue
			}
			for n := 0; n <= len(op.Path); n++ {
				run.eval(t, st, withPrefix(op.Path[:n], op))
			}
		}
	})

	// C: two-op requests of the small alphabet, and the same two ops as a history of two requests.
	// Empty state: every canonical pair; focused states: the pairs with overlapping paths that both touch
	// the state's data (same path twice, child then ancestor, ancestor then child).
	nA3 := len(sp.a3)
	phase("two_op_small", len(focStates)*nA3, func(t *c13Tally, idx int) {
		st, a := focStates[idx/nA3], sp.a3[idx%nA3]
		empty := len(st.atoms) == 0
		if !empty && !touches(st, a.Path) {
			return
		}
		for _, b := range sp.a3 {
			if !canonical(a, b) {
				continue
			}
			rel := related(a.Path, b.Path)
			if !empty && (!rel || !touches(st, b.Path)) {
				continue
			}
			if !rel && (len(a.Atoms) > 1 || len(b.Atoms) > 1) {
				continue
			}
			run.eval(t, st, pair(a, b))
			if !rel {
				continue
			}
			if pre := lcp(a, b); len(pre) > 0 {
				run.eval(t, st, withPrefix(pre, a, b))
			}
			if a.Kind != b.Kind {
				run.eval(t, st, hist(b, a)) // update-then-delete etc.: an order a single request cannot express
			} else if a != b {
				run.eval(t, st, hist(a, b))
			}
		}
	})

	// C3: states built from focus atoms, full alphabet restricted to the chain of the state's own path
	// (targets and payloads above, at and below the state's node, every value and encoding): all two-op
	// requests, and the histories of two requests in the order a single request cannot express
	phase("two_op_chain", len(states), func(t *c13Tally, i int) {
		st := states[i]
		if len(st.atoms) != 1 || !isFocus(st) {
			return
		}
		own := st.atoms[0]
		ch := sp.chainOpsOf(own.Path, func(x *core.Atom) bool { return x.Focus || x == own })
		for _, a := range ch {
			for _, b := range ch {
				if canonical(a, b) {
					run.eval(t, st, pair(a, b))
				} else {
					run.eval(t, st, hist(a, b))
				}
			}
		}
	})

	// E: notifications
	c13Notifications(c, run, sp, states, focStates, phase)

	// F (thorough): three-op requests of the focused alphabet with pairwise overlapping paths, focused states
	if c.Thorough() {
		phase("three_op_small", len(focStates)*nA3, func(t *c13Tally, idx int) {
			st, a := focStates[idx/nA3], sp.a3[idx%nA3]
			if len(a.Atoms) > 1 || !touches(st, a.Path) || len(st.atoms) > 1 {
				return // three-op requests from the empty and the one-atom focused states
			}
			for _, b := range sp.a3 {
				if !canonical(a, b) || !related(a.Path, b.Path) || len(b.Atoms) > 1 {
					continue
				}
				for _, d := range sp.a3 {
					if !canonical(b, d) || !related(b.Path, d.Path) || !related(a.Path, d.Path) || len(d.Atoms) > 1 || !touches(st, b.Path) || !touches(st, d.Path) {
						continue
					}
					run.eval(t, st, one(a, b, d))
				}
			}
		})
	}
	if len(states) > 3 && len(sp.a2) > 3 {
		st := states[len(states)/2]
		c.R.Sample(sp.caseOf(st.atoms, one(sp.a2[len(sp.a2)/3], sp.a2[2*len(sp.a2)/3])))
	}
}

// c13Notifications: Atomic notifications at ordered-list prefixes (the prefix TogNMINotifications
// uses: the container surrounding the list) and at container / list-entry prefixes, plain
// notifications with deletes and updates, and two notifications in one call.
func c13Notifications(c *core.Ctx, run *c13Run, sp *c13Space, all, foc []c13State, phase func(string, int, func(*c13Tally, int))) {
	maxLen := 2
	if c.Thorough() {
		maxLen = 3
	}
	// update ops usable inside a notification under prefix pp: scalar leaf updates and key-leaf updates
	updatesUnder := func(pp core.Path, focusedOnly bool) []*c13Op {
		var out []*c13Op
		for _, op := range sp.ops {
			if op.Kind != 'U' || !(op.Enc == "scalar" || op.Enc == "key") || !pp.Covers(op.Path) {
				continue
			}
			if focusedOnly && !op.foc {
				continue
			}
			out = append(out, op)
		}
		return out
	}
	var seqsOf func(ops []*c13Op, n int) [][]*c13Op
	seqsOf = func(ops []*c13Op, n int) [][]*c13Op {
		out := [][]*c13Op{nil}
		if n == 0 {
			return out
		}
		for _, s := range seqsOf(ops, n-1) {
			if len(s) == n-1 {
				for _, o := range ops {
					out = append(out, append(append([]*c13Op{}, s...), o))
				}
			}
		}
		return out
	}
	// E1: atomic at the ordered-list prefixes, from every state
	type job struct {
		pp  core.Path
		ups [][]*c13Op
	}
	var jobs []job
	for _, ol := range sp.olists {
		jobs = append(jobs, job{ol.Parent, seqsOf(updatesUnder(ol.Parent, true), maxLen)})
	}
	phase("atomic_ordered_list", len(all), func(t *c13Tally, i int) {
		st := all[i]
		for _, j := range jobs {
			foc := true
			touch := len(st.atoms) == 0
			for _, a := range st.atoms {
				foc = foc && a.Focus
				touch = touch || related(j.pp, a.Path)
			}
			if !foc && !touch {
				continue
			}
			for _, ups := range j.ups {
				if len(ups) > 2 && len(st.atoms) > 1 {
					continue // three updates only from the k<=1 states
				}
				run.eval(t, st, &c13Seq{Reqs: []*c13Req{{Ops: ups, Prefix: j.pp, Notif: true, Atomic: true}}})
			}
		}
	})
	// E2: atomic at every container / entry target of the focused alphabet, focused states; plain notifications
	var tjobs []job
	for _, tg := range sp.targets {
		switch tg.TK {
		case "root", "container", "presence", "entry", "olentry":
			ups := updatesUnder(tg.Path, true)
			if len(tg.Path) == 0 || len(ups) == 0 {
				continue
			}
			tjobs = append(tjobs, job{tg.Path, seqsOf(ups, 2)})
		}
	}
	phase("atomic_any_prefix", len(foc), func(t *c13Tally, i int) {
		st := foc[i]
		for _, j := range tjobs {
			if len(st.atoms) > 0 && len(j.ups) > 40 {
				touch := false
				for _, a := range st.atoms {
					touch = touch || related(j.pp, a.Path)
				}
				if !touch {
					continue
				}
			}
			for _, ups := range j.ups {
				run.eval(t, st, &c13Seq{Reqs: []*c13Req{{Ops: ups, Prefix: j.pp, Notif: true, Atomic: true}}})
			}
		}
	})
	// E3: plain notifications: delete + update pairs of the small alphabet with overlapping paths (from the
	// focused states: both touching the state's data); two notifications in one call
	var dels, ups []*c13Op
	for _, op := range sp.a3 {
		if op.Kind == 'D' {
			dels = append(dels, op)
		}
		if op.Kind == 'U' {
			ups = append(ups, op)
		}
	}
	phase("plain_notifications", len(foc), func(t *c13Tally, i int) {
		st := foc[i]
		touch := func(q core.Path) bool {
			for _, a := range st.atoms {
				if related(q, a.Path) {
					return true
				}
			}
			return len(st.atoms) == 0
		}
		for _, d := range dels {
			for _, u := range ups {
				if !related(d.Path, u.Path) || len(u.Atoms) > 1 || !touch(d.Path) || !touch(u.Path) {
					continue
				}
				run.eval(t, st, &c13Seq{Reqs: []*c13Req{{Ops: []*c13Op{d, u}, PfxNil: true, Notif: true}}})
				run.eval(t, st, &c13Seq{Reqs: []*c13Req{{Ops: []*c13Op{d, u}, Prefix: lcp(d, u), Notif: true}}})
				// update first, delete in a second notification of the same call
				run.eval(t, st, &c13Seq{OneCall: true, Reqs: []*c13Req{{Ops: []*c13Op{u}, PfxNil: true, Notif: true}, {Ops: []*c13Op{d}, PfxNil: true, Notif: true}}})
			}
		}
		// two atomic notifications in one call at the ordered-list prefixes
		for _, j := range jobs {
			for _, u1 := range j.ups {
				for _, u2 := range j.ups {
					if len(u1) > 1 || len(u2) > 1 {
						continue
					}
					run.eval(t, st, &c13Seq{OneCall: true, Reqs: []*c13Req{{Ops: u1, Prefix: j.pp, Notif: true, Atomic: true}, {Ops: u2, Prefix: j.pp, Notif: true, Atomic: true}}})
				}
			}
		}
	})
}

func replayC13(c *core.Ctx, raw []byte) (bool, string) {
	var cs c13Case
	if err := json.Unmarshal(raw, &cs); err != nil {
		return false, err.Error()
	}
	p := core.PkgByName(cs.Pkg)
	if p == nil {
		return false, "unknown package"
	}
	sp := c13SpaceOf(p)
	atoms, ok := p.AtomsByName(cs.Atoms)
	if !ok {
		return false, "unknown atoms"
	}
	seq, ok := sp.seqOf(cs)
	if !ok {
		return false, "cannot rebuild the request"
	}
	if len(seq.Reqs) == 1 && len(seq.Reqs[0].Ops) == 1 && len(atoms) == 0 {
		if e := sp.standalone(seq.Reqs[0].Ops[0]); e != "" && c13RejectionOwned(sp, seq.Reqs[0].Ops[0], e) == "" {
			return true, "update-rejected-standalone: " + e
		}
	}
	res := sp.check(atoms, seq)
	if res.clause == "" && len(seqWild(seq)) > 0 {
		// lists addressed without all keys: the answer may depend on Go map iteration order
		for i := 0; i < 12; i++ {
			if r2 := sp.check(atoms, seq); r2.outcome != res.outcome || r2.clause != res.clause {
				return true, fmt.Sprintf("unstable-outcome: answered %q and then %q", res.outcome+res.clause, r2.outcome+r2.clause)
			}
		}
	}
	return res.clause != "", res.clause + " " + res.detail
}
