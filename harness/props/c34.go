package props

import (
	"encoding/json"
	"fmt"
	"reflect"
	"sort"
	"strings"

	"github.com/openconfig/ygot/ygot"
	"github.com/openconfig/ygot/zzverif/core"
)

func init() { core.RegisterProp(&core.Prop{ID: "C34", Run: runC34, Replay: replayC34}) }

// C34: generated keyed-list helpers New<L>, GetOrCreate<L>, Get<L>, Append<L>, Delete<L>, Rename<L>.

type klOp struct {
	Name string
	Kind string // new getorcreate get append appendnilkey delete rename
	Key  int
	To   int
	Mask int
}

type klSys struct {
	site  *core.ListSite
	ops   []klOp
	names []string
}

func newKlSys(site *core.ListSite) *klSys {
	s := &klSys{site: site}
	add := func(o klOp) { s.ops = append(s.ops, o); s.names = append(s.names, o.Name) }
	nk := len(site.Domain)
	for k := 0; k < nk; k++ {
		add(klOp{Name: fmt.Sprintf("New(k%d)", k), Kind: "new", Key: k})
	}
	for k := 0; k < nk; k++ {
		add(klOp{Name: fmt.Sprintf("GetOrCreate(k%d)", k), Kind: "getorcreate", Key: k})
	}
	for k := 0; k < nk; k++ {
		add(klOp{Name: fmt.Sprintf("Get(k%d)", k), Kind: "get", Key: k})
	}
	for k := 0; k < nk; k++ {
		add(klOp{Name: fmt.Sprintf("Append(e[k%d])", k), Kind: "append", Key: k})
	}
	for c := range site.KeyNames {
		// an enumeration-typed key leaf has no nil value (its zero value is a Go value like any other): no such call
		if site.CompNillable(c) {
			add(klOp{Name: fmt.Sprintf("Append(e[nilkey#%d])", 1<<uint(c)), Kind: "appendnilkey", Mask: 1 << uint(c)})
		}
	}
	for k := 0; k < nk; k++ {
		add(klOp{Name: fmt.Sprintf("Delete(k%d)", k), Kind: "delete", Key: k})
	}
	for k := 0; k < nk; k++ {
		for t := 0; t < nk; t++ {
			add(klOp{Name: fmt.Sprintf("Rename(k%d,k%d)", k, t), Kind: "rename", Key: k, To: t})
		}
	}
	return s
}

func (s *klSys) Name() string    { return s.site.Shape() }
func (s *klSys) Inits() []string { return []string{"nil-map", "empty-map"} }
func (s *klSys) Ops() []string   { return s.names }

// klExec is one execution: the real parent struct plus the reference (Go map key index -> entry identity).
type klExec struct {
	s      *klSys
	root   ygot.GoStruct
	parent reflect.Value
	fld    reflect.Value
	ks     *core.KeySet
	ids    map[uintptr]int
	ref    map[int]int // the reference: key -> identity (birth index) of the entry stored there
	births int
}

func (x *klExec) sig(clause string, op *klOp) string {
	k := "state"
	if op != nil {
		k = op.Kind
		if op.Mask != 0 {
			k += fmt.Sprintf("#%d", op.Mask)
		}
		if op.Kind == "rename" && op.Key == op.To {
			k += "-same"
		}
	}
	return clause + ":" + x.s.site.Shape() + ":" + k
}

func (x *klExec) born(e reflect.Value, key int) {
	x.ids[e.Pointer()] = x.births
	x.ref[key] = x.births
	x.births++
}

func (x *klExec) stored(k int) reflect.Value {
	if x.fld.IsNil() {
		return reflect.Value{}
	}
	return x.fld.MapIndex(x.ks.Keys[k])
}

// observe compares the map contents (by reflection) and Get<L> with the reference and returns the canonical state.
func (x *klExec) observe() (canon, clause, detail string) {
	site := x.s.site
	n := x.fld.Len()
	if n != len(x.ref) {
		return "", "len", fmt.Sprintf("map has %d entries, reference %d", n, len(x.ref))
	}
	type obs struct{ k, id int }
	var os []obs
	for _, k := range x.fld.MapKeys() {
		ki := site.KeyIndex(x.ks, k)
		e := x.fld.MapIndex(k)
		if ki < 0 {
			return "", "foreign-key", fmt.Sprintf("map holds key %s which no call of the history used", site.KeyCanon(k))
		}
		want, ok := x.ref[ki]
		if !ok {
			return "", "contents", fmt.Sprintf("map holds k%d, reference does not", ki)
		}
		if e.IsNil() {
			return "", "nil-entry", fmt.Sprintf("map holds a nil entry under k%d", ki)
		}
		if id, known := x.ids[e.Pointer()]; !known || id != want {
			return "", "identity", fmt.Sprintf("entry under k%d is not the object the reference has there", ki)
		}
		if m, leaves := site.EntryKeyMatches(e, k); !m {
			return "", "key-leaves", fmt.Sprintf("entry under %s has key leaves {%s}", site.KeyCanon(k), leaves)
		}
		os = append(os, obs{ki, want})
	}
	sort.Slice(os, func(i, j int) bool { return os[i].k < os[j].k })
	var parts []string
	for _, o := range os {
		parts = append(parts, fmt.Sprintf("k%d#%d", o.k, o.id))
	}
	wasNil := x.fld.IsNil()
	for k := range x.ks.Keys {
		got := ptrOf(callM(x.parent, "Get"+site.Field, x.ks.Comps[k]...)[0])
		id, present := x.ref[k]
		gid, known := x.ids[got]
		if (!present && got != 0) || (present && (got == 0 || !known || gid != id)) {
			return "", "get", fmt.Sprintf("Get%s(k%d) returned %s, reference: present=%v", site.Field, k, nilOrObj(got), present)
		}
	}
	if x.fld.Len() != n || x.fld.IsNil() != wasNil {
		return "", "get-created", "Get<L> changed the map"
	}
	facts := "map=nil"
	if !x.fld.IsNil() {
		facts = "map=set"
	}
	return fmt.Sprintf("%s {%s} births=%d", facts, strings.Join(parts, " "), x.births), "", ""
}

func (x *klExec) step(op *klOp) (class, clause, detail string) {
	site := x.s.site
	L := site.Field
	before := seqDump(x.parent)
	unchanged := func(cl string) (string, string, string) {
		if after := seqDump(x.parent); after != before {
			return cl, "rejected-or-read-call-changed-map", fmt.Sprintf("%s left the tree different from before: before=%s after=%s", op.Name, before, after)
		}
		return cl, "", ""
	}
	_, present := x.ref[op.Key]
	switch op.Kind {
	case "new":
		out := callM(x.parent, "New"+L, x.ks.Comps[op.Key]...)
		failed := !out[1].IsNil()
		if present {
			if !failed {
				return "", "new-duplicate-accepted", fmt.Sprintf("New%s(k%d) with an existing key returned no error", L, op.Key)
			}
			return unchanged("rejected-duplicate")
		}
		if failed || out[0].IsNil() {
			return "", "new-rejected", fmt.Sprintf("New%s(k%d) with a new key returned error=%v entry-nil=%v", L, op.Key, failed, out[0].IsNil())
		}
		x.born(out[0], op.Key)
		return "created", "", ""
	case "getorcreate":
		e1 := callM(x.parent, "GetOrCreate"+L, x.ks.Comps[op.Key]...)[0]
		if e1.IsNil() {
			return "", "getorcreate-nil", "GetOrCreate returned nil"
		}
		cl := "getorcreate-created"
		if present {
			cl = "getorcreate-existing"
			if id, known := x.ids[e1.Pointer()]; !known || id != x.ref[op.Key] {
				return "", "getorcreate-identity", fmt.Sprintf("GetOrCreate%s(k%d) did not return the stored entry", L, op.Key)
			}
			if _, c2, d2 := unchanged(cl); c2 != "" {
				return "", c2, d2
			}
		} else {
			x.born(e1, op.Key)
		}
		// idempotence: the same call again returns the same object and changes nothing
		mid := seqDump(x.parent)
		e2 := callM(x.parent, "GetOrCreate"+L, x.ks.Comps[op.Key]...)[0]
		if ptrOf(e2) != ptrOf(e1) {
			return "", "getorcreate-not-idempotent", fmt.Sprintf("two successive GetOrCreate%s(k%d) returned different objects", L, op.Key)
		}
		if seqDump(x.parent) != mid {
			return "", "getorcreate-not-idempotent", "the second GetOrCreate changed the tree"
		}
		return cl, "", ""
	case "get":
		got := ptrOf(callM(x.parent, "Get"+L, x.ks.Comps[op.Key]...)[0])
		gid, known := x.ids[got]
		if (!present && got != 0) || (present && (got == 0 || !known || gid != x.ref[op.Key])) {
			return "", "get", fmt.Sprintf("Get%s(k%d) returned %s, key present=%v", L, op.Key, nilOrObj(got), present)
		}
		if present {
			return unchanged("get-present")
		}
		return unchanged("get-absent")
	case "append":
		e := site.NewEntry(x.ks.Comps[op.Key], 0)
		failed := !callM(x.parent, "Append"+L, e)[0].IsNil()
		if present {
			if !failed {
				return "", "append-duplicate-accepted", fmt.Sprintf("Append%s of an entry with the existing key k%d returned no error", L, op.Key)
			}
			return unchanged("rejected-duplicate")
		}
		if failed {
			return "", "append-rejected", fmt.Sprintf("Append%s of an entry with the new key k%d returned an error", L, op.Key)
		}
		x.born(e, op.Key)
		return "appended", "", ""
	case "appendnilkey":
		e := site.NewEntry(x.ks.Comps[0], op.Mask)
		if callM(x.parent, "Append"+L, e)[0].IsNil() {
			return "", "append-nilkey-accepted", fmt.Sprintf("Append%s of an entry whose key leaf %s is nil returned no error", L, keyLeafName(site, op.Mask))
		}
		return unchanged("rejected-nil-key")
	case "delete":
		callM(x.parent, "Delete"+L, x.ks.Comps[op.Key]...)
		if !present {
			return unchanged("delete-absent")
		}
		delete(x.ref, op.Key)
		return "deleted", "", ""
	case "rename":
		_, toPresent := x.ref[op.To]
		failed := !callM(x.parent, "Rename"+L, x.ks.Keys[op.Key], x.ks.Keys[op.To])[0].IsNil()
		switch {
		case !present:
			// nothing to move. The statement does not say what is returned: only "unchanged" is judged.
			if failed {
				return unchanged("rename-missing:error")
			}
			return unchanged("rename-missing:nil(not-judged)")
		case toPresent:
			// renaming onto an existing key (or onto itself): the statement does not decide it. An error must
			// leave the map unchanged; acceptance is followed as "move, replacing" and counted.
			if failed {
				return unchanged("rename-onto-existing:error")
			}
			id := x.ref[op.Key]
			delete(x.ref, op.Key)
			x.ref[op.To] = id
			return "rename-onto-existing:accepted(not-judged)", "", ""
		}
		if failed {
			return "", "rename-rejected", fmt.Sprintf("Rename%s(k%d,k%d) of an existing entry to a free key returned an error", L, op.Key, op.To)
		}
		id := x.ref[op.Key]
		delete(x.ref, op.Key)
		x.ref[op.To] = id // the same entry object: observe() checks identity and the updated key leaves
		return "renamed", "", ""
	}
	panic("harness: unknown op " + op.Kind)
}

func keyLeafName(site *core.ListSite, mask int) string {
	for c, n := range site.KeyNames {
		if mask&(1<<uint(c)) != 0 {
			return n
		}
	}
	return "?"
}

func (s *klSys) run(init int, ops []uint16) (*core.SeqRun, *klExec) {
	run := &core.SeqRun{}
	x := &klExec{s: s, ids: map[uintptr]int{}, ref: map[int]int{}}
	x.root, x.parent, x.fld = s.site.Fresh()
	ks, err := s.site.NewKeys()
	if err != nil {
		panic("harness: " + err.Error())
	}
	x.ks = ks
	if init == 1 {
		x.fld.Set(reflect.MakeMap(x.fld.Type()))
	}
	fail := func(step int, op *klOp, clause, detail string) (*core.SeqRun, *klExec) {
		run.Viol = &core.SeqViol{Step: step, Sig: x.sig(clause, op), Detail: detail}
		return run, x
	}
	guard := func(f func() (string, string, string)) (a, b, c string) {
		defer func() {
			if r := recover(); r != nil {
				if s, ok := r.(string); ok && strings.HasPrefix(s, "harness:") {
					panic(r)
				}
				a, b, c = "", "panic", fmt.Sprintf("panic: %v", r)
			}
		}()
		return f()
	}
	canon, cl, d := guard(x.observe)
	if cl != "" {
		return fail(-1, nil, cl, d)
	}
	run.Canons = append(run.Canons, canon)
	for i, oi := range ops {
		op := &s.ops[oi]
		class, cl, d := guard(func() (string, string, string) { return x.step(op) })
		if cl != "" {
			return fail(i, op, cl, d)
		}
		canon, cl, d := guard(x.observe)
		if cl != "" {
			// the same reads repeated on the same object must give the same verdict; if not, the
			// implementation's answer depends on something outside the history (Go map iteration order)
			for rep := 0; rep < 64; rep++ {
				if _, cl2, d2 := guard(x.observe); cl2 != cl || d2 != d {
					return fail(i, nil, "nondeterministic-read", "after "+op.Name+": repeated reads of the same object disagree: "+d+" / "+d2)
				}
			}
			return fail(i, op, "after-call-"+cl, "after "+op.Name+": "+d)
		}
		run.Canons = append(run.Canons, canon)
		run.Classes = append(run.Classes, class)
	}
	return run, x
}

func (s *klSys) Exec(init int, ops []uint16) *core.SeqRun {
	r, _ := s.run(init, ops)
	return r
}

// c34WrapperProbe documents (without judging) that lists keyed by a wrapper union compare keys by
// pointer: two separately built keys with the same value are different map keys. The search
// therefore builds each key of the domain once per execution.
func c34WrapperProbe(c *core.Ctx, site *core.ListSite) {
	_, parent, fld := site.Fresh()
	a, err1 := site.NewKeys()
	b, err2 := site.NewKeys()
	if err1 != nil || err2 != nil {
		return
	}
	if core.KeyEq(a.Keys[0], b.Keys[0]) {
		return // keys compare by value
	}
	defer func() { recover() }()
	callM(parent, "New"+site.Field, a.Comps[0]...)
	out := callM(parent, "New"+site.Field, b.Comps[0]...)
	if out[1].IsNil() && fld.Len() == 2 {
		c.R.Outcome("excluded-equal-valued-wrapper-union-keys-are-distinct-map-keys(" + site.P.Name + site.Path + ")")
	}
}

// c34EnumProbe records (without judging) what Append<L> does with an entry whose enumeration-typed
// key leaf is unset (zero): Go has no nil for it, so the "nil key" clause does not decide it.
func c34EnumProbe(c *core.Ctx, site *core.ListSite) {
	for ci := range site.KeyNames {
		if site.CompNillable(ci) {
			continue
		}
		_, parent, _ := site.Fresh()
		ks, err := site.NewKeys()
		if err != nil {
			return
		}
		func() {
			defer func() {
				if recover() != nil {
					c.R.Outcome("excluded-unset-enum-key:panic")
				}
			}()
			if callM(parent, "Append"+site.Field, site.NewEntry(ks.Comps[0], 1<<uint(ci)))[0].IsNil() {
				c.R.Outcome("excluded-unset-enum-key:accepted(not-judged)")
			} else {
				c.R.Outcome("excluded-unset-enum-key:rejected")
			}
		}()
	}
}

func c34Pkgs(c *core.Ctx) []string {
	if c.Thorough() {
		return []string{"vtus", "vtuw", "voccs", "vocus", "voccw"}
	}
	return []string{"vtus", "vtuw", "voccs"}
}

func runC34(c *core.Ctx) {
	c.Level = "model_checking"
	depth, full := kFor(c, 5, 6), "3"
	if c.Thorough() {
		full = "4 (packages vtus, vtuw, voccs; 3 in the other packages)"
	}
	c.Rule = fmt.Sprintf("seqmc: in packages %v, for one keyed list per key type (string, int64, uint64, decimal64, bool, enumeration, identityref, union (simple and wrapper), leafref and two-key lists (uint8,enum), (string,string), (int64,enum)), breadth-first search over call histories of length <= %d from a nil and from an empty map; alphabet = {New<L>(k), GetOrCreate<L>(k), Get<L>(k), Append<L>(e_k), Append<L>(entry with a nil key leaf; one per pointer/union key leaf), Delete<L>(k), Rename<L>(k,k') for all k,k'} with k from a 3-key domain (two-key tuples share components; integer domains contain the zero value); every successor is the replay of the whole history on a fresh generated struct; states deduplicated by (map nil-ness, key -> entry identity by birth index, births); after every call the Go map is read by reflection and compared with a reference map key->identity, every entry's key leaves must equal its map key, Get<L>(k) is compared for every k, rejected and read-only calls must leave the reflect dump of the parent struct (the map, every entry, all siblings) unchanged, GetOrCreate is called twice; additionally ALL histories of length %s are executed without deduplication; non-trivial = state with >= 1 entry", c34Pkgs(c), depth, full)
	c.R.Assume("entry identity is pointer identity; key equality is Go == on the generated key types (wrapper-union keys are pointers: each domain key is built once per execution)")
	c.R.Assume("not judged (counted as outcomes): Rename of a missing key returning nil, Rename onto an existing key being accepted, an unset (zero) enumeration key in Append")
	sites := seqSites(c34Pkgs(c), false, true)
	var names []string
	for _, site := range sites {
		if c.Expired() {
			break
		}
		names = append(names, site.P.Name+site.Path+" "+site.Shape())
		sys := newKlSys(site)
		c34WrapperProbe(c, site)
		c34EnumProbe(c, site)
		sp := core.SeqExplore(sys, depth, c.Expired)
		sp.FullHistories(seqFullLen(c, site), c.Expired)
		seqReport(c, site, sp)
		for _, st := range sp.States {
			if strings.Contains(st.Canon, "#") {
				c.R.NonTrivial(site.P.Name + site.Path + st.Canon)
			}
		}
	}
	c.R.Note("lists", names)
	c.R.Note("depth", depth)
	c.R.Note("full_history_length", full)
}

func replayC34(c *core.Ctx, raw []byte) (bool, string) {
	var sc seqCase
	if err := json.Unmarshal(raw, &sc); err != nil {
		return false, err.Error()
	}
	site := findSite(sc.Pkg, sc.Site)
	if site == nil || site.Ordered {
		return false, "unknown list"
	}
	sys := newKlSys(site)
	ops, ok := opIndices(sys, sc.Ops)
	ii := initIndex(sys, sc.Init)
	if !ok || ii < 0 {
		return false, "unknown calls"
	}
	for try := 0; try < 20; try++ { // more than one execution only matters for run-dependent (map-order) outcomes
		if run := sys.Exec(ii, ops); run.Viol != nil {
			return true, run.Viol.Sig + ": " + run.Viol.Detail
		}
	}
	return false, ""
}
