package props

import (
	"encoding/json"
	"fmt"
	"reflect"
	"sort"

	"github.com/openconfig/ygot/ygot"
	"github.com/openconfig/ygot/zzverif/core"
)

func init() { core.RegisterProp(&core.Prop{ID: "C14", Run: runC14, Replay: replayC14}) }

func dataCanon(m *core.Model) string {
	// everything except presence containers (PruneEmptyBranches documents that empty presence
	// containers are pruned like any other container)
	c := m.Clone()
	c.Presence = map[string]bool{}
	return c.Canon()
}

// emptyContainers lists container structs (not list entries) with no data below them.
func emptyContainers(m *core.Model) []string {
	var out []string
	for s := range m.Structs {
		if m.Entries[s] {
			continue
		}
		p := m.Paths[s]
		has := false
		for k := range m.Leaves {
			if p.Covers(m.Paths[k]) {
				has = true
				break
			}
		}
		for k := range m.Entries {
			if has {
				break
			}
			if p.Covers(m.Paths[k]) {
				has = true
			}
		}
		for k := range m.Unkeyed {
			if p.Covers(m.Paths[k]) {
				has = true
			}
		}
		if !has {
			out = append(out, s)
		}
	}
	sort.Strings(out)
	return out
}

// c14Check: mode "plain" prunes the tree as built, "built" first calls BuildEmptyTree on the root
// and on every struct in the tree (the input PruneEmptyBranches exists for).
func c14Check(p *core.Pkg, atoms []*core.Atom, mode string) (string, string) {
	t, err := p.Build(atoms)
	if err != nil {
		return "", ""
	}
	want := p.Observe(t)
	gs := t.(ygot.GoStruct)
	if mode == "built" {
		if err := safeErr(func() error {
			ygot.BuildEmptyTree(gs)
			for _, s := range want.Structs {
				ygot.BuildEmptyTree(s.(ygot.GoStruct))
			}
			return nil
		}); err != nil {
			return "buildemptytree-panic:", err.Error()
		}
		mid := p.Observe(t)
		if dataCanon(mid) != dataCanon(want) {
			return "buildemptytree-changed-data:", core.DiffCanon(dataCanon(want), dataCanon(mid))
		}
	}
	if err := safeErr(func() error { ygot.PruneEmptyBranches(gs); return nil }); err != nil {
		return "prune-panic:", fmt.Sprintf("PruneEmptyBranches did not return normally: %v", err)
	}
	got := p.Observe(t)
	if dataCanon(got) != dataCanon(want) {
		return "data-changed:", "PruneEmptyBranches changed data: " + core.DiffCanon(dataCanon(want), dataCanon(got))
	}
	if ec := emptyContainers(got); len(ec) > 0 {
		return "empty-container-left:", fmt.Sprintf("containers without set descendants remain: %v", ec)
	}
	// presence containers with descendants must survive
	for k := range want.Presence {
		pp := want.Paths[k]
		has := false
		for l := range want.Leaves {
			if pp.Covers(want.Paths[l]) {
				has = true
			}
		}
		if has && !got.Presence[k] {
			return "presence-lost:", "non-empty presence container removed: " + k
		}
	}
	twin, _ := p.Build(atoms)
	_ = twin
	// idempotence: a second call changes nothing (compared with a deep snapshot via reflect.DeepEqual)
	snap := deepSnapshot(t)
	if err := safeErr(func() error { ygot.PruneEmptyBranches(gs); return nil }); err != nil {
		return "prune-panic-second:", err.Error()
	}
	if !reflect.DeepEqual(snap, deepSnapshot(t)) {
		return "not-idempotent:", "second PruneEmptyBranches changed the tree"
	}
	return "", ""
}

// deepSnapshot returns a comparable snapshot of the observable state (model canon + representation facts).
func deepSnapshot(t interface{}) string {
	return fmt.Sprintf("%#v", reflectDump(reflect.ValueOf(t), 0))
}

// reflectDump renders the full reachable object graph (including unexported ordered-map fields) as nested values.
func reflectDump(v reflect.Value, depth int) interface{} {
	if depth > 40 {
		return "..."
	}
	switch v.Kind() {
	case reflect.Ptr, reflect.Interface:
		if v.IsNil() {
			return nil
		}
		return []interface{}{"&", reflectDump(v.Elem(), depth+1)}
	case reflect.Struct:
		out := []interface{}{v.Type().Name()}
		for i := 0; i < v.NumField(); i++ {
			out = append(out, v.Type().Field(i).Name, reflectDump(v.Field(i), depth+1))
		}
		return out
	case reflect.Map:
		if v.IsNil() {
			return nil
		}
		type kv struct {
			k string
			v interface{}
		}
		var kvs []kv
		for _, k := range v.MapKeys() {
			kvs = append(kvs, kv{fmt.Sprintf("%#v", reflectDump(k, depth+1)), reflectDump(v.MapIndex(k), depth+1)})
		}
		sort.Slice(kvs, func(i, j int) bool { return kvs[i].k < kvs[j].k })
		out := []interface{}{"map"}
		for _, e := range kvs {
			out = append(out, e.k, e.v)
		}
		return out
	case reflect.Slice:
		if v.IsNil() {
			return nil
		}
		out := []interface{}{"slice"}
		for i := 0; i < v.Len(); i++ {
			out = append(out, reflectDump(v.Index(i), depth+1))
		}
		return out
	case reflect.String:
		return v.String()
	case reflect.Bool:
		return v.Bool()
	case reflect.Int, reflect.Int8, reflect.Int16, reflect.Int32, reflect.Int64:
		return v.Int()
	case reflect.Uint, reflect.Uint8, reflect.Uint16, reflect.Uint32, reflect.Uint64:
		return v.Uint()
	case reflect.Float32, reflect.Float64:
		return v.Float()
	}
	return v.Kind().String()
}

func runC14(c *core.Ctx) {
	c.Level = "model_checking"
	k := kFor(c, 2, 3)
	c.Rule = fmt.Sprintf("explicit-state BFS over atom sequences up to k=%d on all 8 corpus packages; every state is pruned as built and after BuildEmptyTree on the root and on every struct in it (also inside keyed, unkeyed and ordered list entries); oracle: returns normally, data Model unchanged, no container without descendants left, idempotent; non-trivial = state in which at least one empty container existed before pruning", k)
	exploreAll(c, core.Packages(), k, nil, func(sp *core.Space, st core.State) {
		atoms := sp.SeqAtoms(st)
		for _, mode := range []string{"plain", "built"} {
			c.R.Add("evaluations", 1)
			sig, detail := c14Check(sp.P, atoms, mode)
			if sig != "" {
				min, msig, mdetail := minimise(atoms, func(a []*core.Atom) (string, string) { return c14Check(sp.P, a, mode) })
				c.R.Violation(sigFor(clauseOf(msig)+"@"+mode, min), mdetail+" [first seen with "+fmt.Sprint(atomNames(atoms))+": "+detail+"]", treeCase{Pkg: sp.P.Name, Atoms: atomNames(min), Opt: mode})
				c.R.Outcome("violation")
			} else {
				c.R.Outcome("ok-" + mode)
			}
		}
		c.R.NonTrivial(sp.P.Name + string(st.Key[:]))
	})
}

func replayC14(c *core.Ctx, raw []byte) (bool, string) {
	var tc treeCase
	if err := json.Unmarshal(raw, &tc); err != nil {
		return false, err.Error()
	}
	p := core.PkgByName(tc.Pkg)
	if p == nil {
		return false, "unknown package"
	}
	atoms, ok := p.AtomsByName(tc.Atoms)
	if !ok {
		return false, "unknown atoms"
	}
	sig, d := c14Check(p, atoms, tc.Opt)
	return sig != "", sig + " " + d
}
