package props

// C20 — Malformed input yields errors, never panics.
//
// Deviation-bounded exhaustive malformation: every valid input derived from the explored corpus
// states (JSON documents, gNMI paths, TypedValues, SetRequests / Notifications) is taken as a base,
// and ALL inputs that differ from a base by at most maxDev deviations are generated, a deviation
// being the substitution of one shape atom at one position. Every generated input is handed to the
// real entry points; the oracle is "the call returns". A recovered panic is a violation whose
// signature is panic@<entry point>:<top ygot frame>:<normalised panic message>.

import (
	"bytes"
	"encoding/json"
	"fmt"
	"os"
	"reflect"
	"regexp"
	"runtime"
	"runtime/debug"
	"runtime/pprof"
	"sort"
	"strings"
	"sync"
	"sync/atomic"

	gpb "github.com/openconfig/gnmi/proto/gnmi"
	"github.com/openconfig/ygot/gnmidiff"
	"github.com/openconfig/ygot/ygot"
	"github.com/openconfig/ygot/ytypes"
	"github.com/openconfig/ygot/zzverif/core"
)

func init() { core.RegisterProp(&core.Prop{ID: "C20", Run: runC20, Replay: replayC20}) }

// c20Case is the replay form of one evaluated call: the base input is re-derived from the state
// (package + atoms) and the selector, the deviations are re-applied by name.
type c20Case struct {
	Fam    string   `json:"family"` // json | path | update | request | string
	Target string   `json:"target"` // entry point (+ ":variant")
	Pkg    string   `json:"pkg,omitempty"`
	Atoms  []string `json:"atoms,omitempty"`
	Base   string   `json:"base,omitempty"` // selector of the base input inside the state
	Devs   []string `json:"deviations,omitempty"`
	Opt    string   `json:"opt,omitempty"`
	Dest   string   `json:"dest,omitempty"` // empty | state : the tree the call writes into
	Str    string   `json:"string,omitempty"`
	Text   string   `json:"input_text,omitempty"` // human-readable rendering of the malformed input
}

// ---- panic capture and signatures --------------------------------------------------------------

var (
	c20ReNum   = regexp.MustCompile(`0x[0-9a-fA-F]+|[0-9]+`)
	c20ReIface = regexp.MustCompile(`interface conversion: (\S+(?: \{\})?) is [^,]+, not `)
	c20ReKind  = regexp.MustCompile(`(update|replace|delete|elem)\[?[0-9]+\]?|@[0-9]+(\.[A-Za-z0-9_-]+)?`)
)

func c20NormMsg(m string) string {
	m = c20ReIface.ReplaceAllString(m, "interface conversion: $1 is <T>, not ")
	m = c20ReNum.ReplaceAllString(m, "N")
	if i := strings.IndexByte(m, '\n'); i >= 0 {
		m = m[:i]
	}
	if len(m) > 110 {
		m = m[:110]
	}
	return m
}

// c20TopFrame returns the innermost ygot (non-harness) function on the panicking stack.
func c20TopFrame() string {
	pcs := make([]uintptr, 96)
	n := runtime.Callers(3, pcs)
	frames := runtime.CallersFrames(pcs[:n])
	first := ""
	for {
		fr, more := frames.Next()
		fn := fr.Function
		if strings.HasPrefix(fn, "github.com/openconfig/ygot/zzverif/gen/") { // generated code is ygot's output
			fn = strings.TrimPrefix(fn, "github.com/openconfig/ygot/zzverif/gen/")
			if i := strings.IndexByte(fn, '.'); i >= 0 {
				fn = fn[i+1:]
			}
			return "generated." + fn
		}
		if strings.HasPrefix(fn, "github.com/openconfig/ygot/") && !strings.Contains(fn, "/zzverif/") {
			return strings.TrimPrefix(fn, "github.com/openconfig/ygot/")
		}
		if first == "" && fn != "" && !strings.HasPrefix(fn, "runtime.") {
			first = fn
		}
		if !more {
			break
		}
	}
	return "outside-ygot(" + first + ")"
}

// c20Guard runs f and reports a recovered panic (message + top ygot frame).
func c20Guard(f func() error) (err error, pmsg, frame string) {
	defer func() {
		if r := recover(); r != nil {
			pmsg = fmt.Sprint(r)
			if pmsg == "" {
				pmsg = "(empty panic value)"
			}
			frame = c20TopFrame()
		}
	}()
	return f(), "", ""
}

// c20Dry (env C20_DRY): count the cases without calling the entry points (sizing aid).
var c20Dry = os.Getenv("C20_DRY") != ""

func c20SigTarget(target string) string {
	if i := strings.IndexByte(target, ':'); i >= 0 {
		return target[:i]
	}
	return target
}

// ---- option sets --------------------------------------------------------------------------------

func c20UnmarshalOpts(name string) []ytypes.UnmarshalOpt {
	switch name {
	case "ignore":
		return []ytypes.UnmarshalOpt{&ytypes.IgnoreExtraFields{}}
	case "besteffort":
		return []ytypes.UnmarshalOpt{&ytypes.BestEffortUnmarshal{}}
	case "shadow":
		return []ytypes.UnmarshalOpt{&ytypes.PreferShadowPath{}}
	case "all":
		return []ytypes.UnmarshalOpt{&ytypes.IgnoreExtraFields{}, &ytypes.BestEffortUnmarshal{}, &ytypes.PreferShadowPath{}}
	}
	return nil
}

func c20GetOpts(name string) []ytypes.GetNodeOpt {
	switch name {
	case "partial":
		return []ytypes.GetNodeOpt{&ytypes.GetPartialKeyMatch{}}
	case "wildcards":
		return []ytypes.GetNodeOpt{&ytypes.GetHandleWildcards{}}
	case "tolnil":
		return []ytypes.GetNodeOpt{&ytypes.GetTolerateNil{}}
	case "shadow":
		return []ytypes.GetNodeOpt{&ytypes.PreferShadowPath{}}
	case "all":
		return []ytypes.GetNodeOpt{&ytypes.GetPartialKeyMatch{}, &ytypes.GetHandleWildcards{}, &ytypes.GetTolerateNil{}, &ytypes.PreferShadowPath{}}
	}
	return nil
}

func c20SetOpts(name string) []ytypes.SetNodeOpt {
	switch name {
	case "init":
		return []ytypes.SetNodeOpt{&ytypes.InitMissingElements{}}
	case "tolerant":
		return []ytypes.SetNodeOpt{&ytypes.InitMissingElements{}, &ytypes.TolerateJSONInconsistencies{}, &ytypes.IgnoreExtraFields{}}
	case "shadow":
		return []ytypes.SetNodeOpt{&ytypes.PreferShadowPath{}}
	case "all":
		return []ytypes.SetNodeOpt{&ytypes.InitMissingElements{}, &ytypes.TolerateJSONInconsistencies{}, &ytypes.IgnoreExtraFields{}, &ytypes.PreferShadowPath{}}
	}
	return nil
}

func c20DelOpts(name string) []ytypes.DelNodeOpt {
	if name == "shadow" {
		return []ytypes.DelNodeOpt{&ytypes.PreferShadowPath{}}
	}
	return nil
}

// ---- the single-call executor (shared by explorer and replay) ------------------------------------

// c20Input is one (possibly malformed) input; which fields are used depends on the target.
type c20Input struct {
	Doc  []byte
	Path *gpb.Path
	Val  interface{} // *gpb.TypedValue, or untyped nil
	Req  *c20Req
	Base *c20Req // valid counterpart (gnmidiff compares against it)
	Str  string
}

func c20Dest(p *core.Pkg, atoms []*core.Atom, dest string) ygot.GoStruct {
	if dest == "state" {
		t, err := p.Build(atoms)
		if err == nil {
			return t.(ygot.GoStruct)
		}
	}
	return p.NewRoot()
}

func c20Schema(p *core.Pkg, root ygot.GoStruct) *ytypes.Schema {
	s := p.Schema()
	return &ytypes.Schema{Root: root, SchemaTree: s.SchemaTree, Unmarshal: s.Unmarshal}
}

func c20DiffSchema(p *core.Pkg, opt string) *ytypes.Schema {
	if strings.HasPrefix(opt, "schema") {
		return c20Schema(p, p.NewRoot()) // fresh root: gnmidiff creates nodes in schema.Root
	}
	return nil
}

// c20Exec performs exactly one call of one entry point. Inputs are copied first so that every call
// sees a pristine message (some entry points rewrite their arguments). tree is used by read-only
// targets when non-nil.
func c20Exec(p *core.Pkg, atoms []*core.Atom, tree ygot.GoStruct, target, opt, dest string, in *c20Input) error {
	switch target {
	case "Unmarshal":
		return p.Unmarshal(in.Doc, c20Dest(p, atoms, dest), c20UnmarshalOpts(opt)...)
	case "GetNode":
		if tree == nil {
			tree = c20Dest(p, atoms, "state")
		}
		_, err := ytypes.GetNode(p.RootSchema(), tree, c20CpPath(in.Path), c20GetOpts(opt)...)
		return err
	case "DeleteNode":
		return ytypes.DeleteNode(p.RootSchema(), c20Dest(p, atoms, dest), c20CpPath(in.Path), c20DelOpts(opt)...)
	case "SetNode":
		var v interface{}
		if tv, ok := in.Val.(*gpb.TypedValue); ok {
			v = c20CpTV(tv)
		}
		return ytypes.SetNode(p.RootSchema(), c20Dest(p, atoms, dest), c20CpPath(in.Path), v, c20SetOpts(opt)...)
	case "UnmarshalSetRequest":
		return ytypes.UnmarshalSetRequest(c20Schema(p, c20Dest(p, atoms, dest)), in.Req.set(), c20UnmarshalOpts(opt)...)
	case "UnmarshalNotifications":
		return ytypes.UnmarshalNotifications(c20Schema(p, c20Dest(p, atoms, dest)), in.Req.notifs(), c20UnmarshalOpts(opt)...)
	case "DiffSetRequest:ab":
		_, err := gnmidiff.DiffSetRequest(in.Req.set(), in.Base.set(), c20DiffSchema(p, opt))
		return err
	case "DiffSetRequest:ba":
		_, err := gnmidiff.DiffSetRequest(in.Base.set(), in.Req.set(), c20DiffSchema(p, opt))
		return err
	case "DiffSetRequest:aa":
		r := in.Req.set()
		_, err := gnmidiff.DiffSetRequest(r, r, c20DiffSchema(p, opt))
		return err
	case "DiffSetRequestToNotifications:set":
		_, err := gnmidiff.DiffSetRequestToNotifications(in.Req.set(), in.Base.notifs(), c20DiffSchema(p, opt))
		return err
	case "DiffSetRequestToNotifications:notif":
		_, err := gnmidiff.DiffSetRequestToNotifications(in.Base.set(), in.Req.notifs(), c20DiffSchema(p, opt))
		return err
	case "StringToPath":
		_, err := ygot.StringToPath(in.Str, ygot.StructuredPath, ygot.StringSlicePath)
		return err
	case "StringToStructuredPath":
		_, err := ygot.StringToStructuredPath(in.Str)
		return err
	case "StringToStringSlicePath":
		_, err := ygot.StringToStringSlicePath(in.Str)
		return err
	}
	panic("c20: unknown target " + target)
}

// ---- run-level aggregation ----------------------------------------------------------------------

type c20Viol struct {
	rank   [4]int
	detail string
	cs     c20Case
	count  int64
}

type c20Run struct {
	c      *core.Ctx
	mu     sync.Mutex
	viols  map[string]*c20Viol
	counts map[string]*[3]int64 // sig-target -> ok, error, panic
	inputs map[string]int64     // family -> distinct generated inputs (with >= 1 deviation)
	kinds  map[string]struct{}  // family|deviation kinds (non-trivial classes)
	stop   int32
}

func c20RankLess(a, b [4]int) bool {
	for i := range a {
		if a[i] != b[i] {
			return a[i] < b[i]
		}
	}
	return false
}

// c20Agg is the per-state (single goroutine) accumulator, flushed once.
type c20Agg struct {
	run    *c20Run
	p      *core.Pkg
	atoms  []*core.Atom
	names  []string
	tree   ygot.GoStruct
	sidx   int
	seq    int
	counts map[string]*[3]int64
	inputs map[string]int64
	kinds  map[string]struct{}
}

func (a *c20Agg) pkgName() string {
	if a.p == nil {
		return ""
	}
	return a.p.Name
}

func (a *c20Agg) input(fam string, devs []string) {
	if len(devs) == 0 {
		return
	}
	a.inputs[fam]++
	ks := make([]string, len(devs))
	for i, d := range devs {
		if fam == "json" {
			ks[i] = d[strings.Index(d, " |")+2:]
			continue
		}
		ks[i] = c20ReKind.ReplaceAllString(d, "$1")
	}
	a.kinds[fam+"|"+strings.Join(ks, " & ")] = struct{}{}
}

// call evaluates one entry point on one input and records the outcome.
func (a *c20Agg) call(fam, target, opt, dest, base string, devs []string, in *c20Input, text func() string) {
	a.seq++
	var err error
	var pmsg, frame string
	if !c20Dry {
		err, pmsg, frame = c20Guard(func() error { return c20Exec(a.p, a.atoms, a.tree, target, opt, dest, in) })
	}
	st := c20SigTarget(target)
	cnt := a.counts[st]
	if cnt == nil {
		cnt = new([3]int64)
		a.counts[st] = cnt
	}
	switch {
	case pmsg != "":
		cnt[2]++
		sig := "panic@" + st + ":" + frame + ":" + c20NormMsg(pmsg)
		cs := c20Case{Fam: fam, Target: target, Pkg: a.pkgName(), Atoms: a.names, Base: base, Devs: append([]string{}, devs...), Opt: opt, Dest: dest, Str: in.Str, Text: text()}
		a.run.record(sig, fmt.Sprintf("%s(%s) panicked: %s [opt=%s dest=%s state=%v]", target, cs.Text, pmsg, opt, dest, a.names),
			cs, [4]int{len(devs), len(a.atoms), a.sidx, a.seq})
	case err != nil:
		cnt[1]++
	default:
		cnt[0]++
	}
}

func (r *c20Run) record(sig, detail string, cs c20Case, rank [4]int) {
	r.mu.Lock()
	defer r.mu.Unlock()
	v := r.viols[sig]
	if v == nil {
		r.viols[sig] = &c20Viol{rank: rank, detail: detail, cs: cs, count: 1}
		return
	}
	v.count++
	if c20RankLess(rank, v.rank) {
		v.rank, v.detail, v.cs = rank, detail, cs
	}
}

func (a *c20Agg) flush() {
	r := a.run
	r.mu.Lock()
	defer r.mu.Unlock()
	for k, v := range a.counts {
		c := r.counts[k]
		if c == nil {
			c = new([3]int64)
			r.counts[k] = c
		}
		for i := range v {
			c[i] += v[i]
		}
	}
	for k, v := range a.inputs {
		r.inputs[k] += v
	}
	for k := range a.kinds {
		r.kinds[k] = struct{}{}
	}
}

// ---- JSON family --------------------------------------------------------------------------------

var c20JSONAtomVals = func() []interface{} {
	out := make([]interface{}, len(c20JSONAtoms))
	for i, a := range c20JSONAtoms {
		out[i] = c20ParseJSON([]byte(a))
	}
	return out
}()

func c20ParseJSON(b []byte) interface{} {
	d := json.NewDecoder(bytes.NewReader(b))
	d.UseNumber()
	var v interface{}
	if err := d.Decode(&v); err != nil {
		return nil
	}
	return v
}

func c20JSONKind(v interface{}) string {
	switch v.(type) {
	case nil:
		return "null"
	case bool:
		return "bool"
	case json.Number:
		return "number"
	case string:
		return "string"
	case []interface{}:
		return "array"
	case map[string]interface{}:
		return "object"
	}
	return "?"
}

func c20SortedIfaceKeys(m map[string]interface{}) []string {
	ks := make([]string, 0, len(m))
	for k := range m {
		ks = append(ks, k)
	}
	sort.Strings(ks)
	return ks
}

// c20JSONPositions lists the positions (pre-order: the value itself, then members by sorted name /
// elements by index) as "pointer |kind".
func c20JSONPositions(v interface{}, ptr string, out *[]string) {
	*out = append(*out, ptr+" |"+c20JSONKind(v))
	switch x := v.(type) {
	case map[string]interface{}:
		for _, k := range c20SortedIfaceKeys(x) {
			c20JSONPositions(x[k], ptr+"/"+k, out)
		}
	case []interface{}:
		for i, e := range x {
			c20JSONPositions(e, fmt.Sprintf("%s/%d", ptr, i), out)
		}
	}
}

// c20JSONSubst returns a copy of v with the value at pre-order position target replaced by repl.
func c20JSONSubst(v interface{}, idx *int, target int, repl interface{}) interface{} {
	me := *idx
	*idx++
	if me == target {
		return repl
	}
	switch x := v.(type) {
	case map[string]interface{}:
		o := make(map[string]interface{}, len(x))
		for _, k := range c20SortedIfaceKeys(x) {
			o[k] = c20JSONSubst(x[k], idx, target, repl)
		}
		return o
	case []interface{}:
		o := make([]interface{}, len(x))
		for i, e := range x {
			o[i] = c20JSONSubst(e, idx, target, repl)
		}
		return o
	}
	return v
}

func c20JSONDevName(pos int, posName string, atom int) string {
	return fmt.Sprintf("#%d %s<-%s", pos, posName, c20JSONAtoms[atom])
}

// c20JSONAt returns the value at pre-order position target.
func c20JSONAt(v interface{}, idx *int, target int) (interface{}, bool) {
	me := *idx
	*idx++
	if me == target {
		return v, true
	}
	switch x := v.(type) {
	case map[string]interface{}:
		for _, k := range c20SortedIfaceKeys(x) {
			if r, ok := c20JSONAt(x[k], idx, target); ok {
				return r, true
			}
		}
	case []interface{}:
		for _, e := range x {
			if r, ok := c20JSONAt(e, idx, target); ok {
				return r, true
			}
		}
	}
	return nil, false
}

// c20JSONTwins lists the pairs of positions (i < j) that hold the same scalar under the same member
// name: in the documents ygot renders these are the copies of one YANG leaf that a compressed schema
// maps to one field (list key "name" and "config/name"). A "twin" deviation replaces BOTH by the
// same atom, so the decoder meets two equal non-scalar values where it expects two equal scalars.
func c20JSONTwins(v interface{}, ps []string) [][2]int {
	last := func(s string) string {
		s = s[:strings.LastIndex(s, " |")]
		return s[strings.LastIndex(s, "/")+1:]
	}
	scalar := func(s string) bool {
		k := s[strings.LastIndex(s, " |")+2:]
		return k == "string" || k == "number" || k == "bool"
	}
	var out [][2]int
	for i := range ps {
		if !scalar(ps[i]) {
			continue
		}
		for j := i + 1; j < len(ps); j++ {
			if !scalar(ps[j]) || last(ps[i]) != last(ps[j]) {
				continue
			}
			a, b := 0, 0
			x, _ := c20JSONAt(v, &a, i)
			y, _ := c20JSONAt(v, &b, j)
			if x == y {
				out = append(out, [2]int{i, j})
			}
		}
	}
	return out
}

func c20JSONTwinName(t [2]int, ps []string, atom int) string {
	return fmt.Sprintf("twin #%d+#%d %s<-%s", t[0], t[1], ps[t[0]], c20JSONAtoms[atom])
}

func c20JSONTwinSubst(v interface{}, t [2]int, av interface{}) interface{} {
	i := 0
	m := c20JSONSubst(v, &i, t[1], av) // the later position first: earlier positions keep their index
	i = 0
	return c20JSONSubst(m, &i, t[0], av)
}

// c20JSONApply re-applies a deviation by name (replay).
func c20JSONApply(v interface{}, name string) (interface{}, bool) {
	var ps []string
	c20JSONPositions(v, "", &ps)
	if strings.HasPrefix(name, "twin ") {
		for _, t := range c20JSONTwins(v, ps) {
			for ai := range c20JSONAtoms {
				if c20JSONTwinName(t, ps, ai) == name {
					return c20JSONTwinSubst(v, t, c20JSONAtomVals[ai]), true
				}
			}
		}
		return nil, false
	}
	for pi, pn := range ps {
		for ai := range c20JSONAtoms {
			if c20JSONDevName(pi, pn, ai) == name {
				i := 0
				return c20JSONSubst(v, &i, pi, c20JSONAtomVals[ai]), true
			}
		}
	}
	return nil, false
}

// c20JSONEnum calls visit for the base (0 deviations) and every document with <= maxDev deviations.
// A later deviation always sits at a later pre-order position than the earlier one (positions inside
// a substituted atom included), so each multi-deviation document is generated once.
func c20JSONEnum(v interface{}, from int, maxDev int, devs []string, visit func(v interface{}, devs []string)) {
	if from == 0 {
		visit(v, devs)
	}
	if len(devs) >= maxDev {
		return
	}
	var ps []string
	c20JSONPositions(v, "", &ps)
	if from == 0 && len(devs) == 0 {
		// twin deviations (one deviation each, see c20JSONTwins)
		for _, t := range c20JSONTwins(v, ps) {
			for ai, av := range c20JSONAtomVals {
				visit(c20JSONTwinSubst(v, t, av), []string{c20JSONTwinName(t, ps, ai)})
			}
		}
	}
	for pi := from; pi < len(ps); pi++ {
		for ai, av := range c20JSONAtomVals {
			i := 0
			m := c20JSONSubst(v, &i, pi, av)
			nd := append(append([]string{}, devs...), c20JSONDevName(pi, ps[pi], ai))
			visit(m, nd)
			if len(nd) < maxDev {
				c20JSONEnum(m, pi+1, maxDev, nd, func(v2 interface{}, d2 []string) {
					if len(d2) > len(nd) {
						visit(v2, d2)
					}
				})
			}
		}
	}
}

// ---- base inputs of one state -------------------------------------------------------------------

type c20Doc struct {
	Sel  string // "/" or the model path string of the container / list entry
	Path *gpb.Path
	Tree interface{}
}
type c20BasePath struct {
	Sel  string
	Path *gpb.Path
}
type c20BaseUpd struct {
	Sel  string
	Path *gpb.Path
	Val  *gpb.TypedValue
}
type c20BaseReq struct {
	Sel string
	Req *c20Req
}
type c20Bases struct {
	tree     ygot.GoStruct
	docs     []c20Doc
	paths    []c20BasePath
	upds     []c20BaseUpd
	reqs     []c20BaseReq
	unkeyed  bool
	notifErr string
}

func c20MakeBases(p *core.Pkg, atoms []*core.Atom) (*c20Bases, error) {
	t, err := p.Build(atoms)
	if err != nil {
		return nil, err
	}
	b := &c20Bases{tree: t.(ygot.GoStruct)}
	m := p.Observe(t)
	b.unkeyed = len(m.Unkeyed) > 0
	// JSON documents: the root and every container / list entry.
	addDoc := func(sel string, path *gpb.Path, s ygot.GoStruct) {
		var j []byte
		if e := safeErr(func() (err error) { j, err = ygot.Marshal7951(s); return }); e != nil {
			return
		}
		if tr := c20ParseJSON(j); tr != nil {
			b.docs = append(b.docs, c20Doc{sel, path, tr})
		}
	}
	addDoc("/", &gpb.Path{}, b.tree)
	var ss []string
	for s := range m.Structs {
		ss = append(ss, s)
	}
	sort.Strings(ss)
	for _, s := range ss {
		if gs, ok := m.Structs[s].(ygot.GoStruct); ok {
			addDoc(s, m.Paths[s].GNMI(), gs)
		}
	}
	// gNMI paths of all nodes (+ root).
	b.paths = append(b.paths, c20BasePath{"/", &gpb.Path{}})
	var ps []string
	for s := range m.Paths {
		ps = append(ps, s)
	}
	sort.Strings(ps)
	for _, s := range ps {
		if s != "/" {
			b.paths = append(b.paths, c20BasePath{s, m.Paths[s].GNMI()})
		}
	}
	// TypedValues / updates / requests from ygot's own notifications.
	ns, err := safeNotifs(func() ([]*gpb.Notification, error) {
		return ygot.TogNMINotifications(b.tree, 42, ygot.GNMINotificationsConfig{UsePathElem: true})
	})
	if err != nil {
		b.notifErr = err.Error()
		return b, nil
	}
	for ni, n := range ns {
		var dels []*gpb.Path
		for ui, u := range n.Update {
			full := &gpb.Path{Elem: core.JoinElems(n.Prefix, u.Path)}
			b.upds = append(b.upds, c20BaseUpd{fmt.Sprintf("%d.%d", ni, ui), c20CpPath(full), c20CpTV(u.Val)})
			dels = append(dels, c20CpPath(u.Path))
		}
		if len(n.Update) == 0 {
			continue
		}
		b.reqs = append(b.reqs,
			c20BaseReq{fmt.Sprintf("%d:update", ni), &c20Req{Prefix: c20CpPath(n.Prefix), Update: c20CpUpds(n.Update), Atomic: n.Atomic}},
			c20BaseReq{fmt.Sprintf("%d:replace", ni), &c20Req{Prefix: c20CpPath(n.Prefix), Replace: c20CpUpds(n.Update), Atomic: n.Atomic}},
			c20BaseReq{fmt.Sprintf("%d:delete", ni), &c20Req{Prefix: c20CpPath(n.Prefix), Delete: dels, Atomic: n.Atomic}})
	}
	return b, nil
}

// ---- per-state plan ------------------------------------------------------------------------------

// c20Plan says which inputs of one state are enumerated and which calls each input gets.
type c20Plan struct {
	full bool // thorough call lists (all option sets)

	jsonDev  int  // deviations in the root JSON document (0 = family skipped)
	jsonSub  bool // also the documents of every container / list entry (<= 1 deviation) -> SetNode / gnmidiff
	jsonDiff bool // root document also goes to SetNode and gnmidiff
	pathDev  int  // deviations in node paths -> GetNode / DeleteNode
	updDev   int  // deviations in (path, TypedValue) updates -> SetNode
	reqDev   int  // deviations in SetRequests / Notifications (the 2nd deviation: update form only)
	reqInner int  // 0: request-level deviations only; 1: + path / TypedValue deviations of every part in the update form; 2: in all forms
	lean     bool // smallest call lists (class B / C states)
	single   bool // class C: one Unmarshal call per document
}

type c20Call struct{ target, opt, dest string }

func c20Calls(target string, opts, dests []string) []c20Call {
	var out []c20Call
	for _, o := range opts {
		for _, d := range dests {
			out = append(out, c20Call{target, o, d})
		}
	}
	return out
}

var c20Both = []string{"empty", "state"}

func (pl *c20Plan) unmarshalCalls(second bool) []c20Call {
	switch {
	case pl.single:
		return []c20Call{{"Unmarshal", "none", "empty"}}
	case second || (pl.lean && !pl.full):
		return []c20Call{{"Unmarshal", "none", "empty"}, {"Unmarshal", "all", "state"}}
	case pl.full && !pl.lean:
		return c20Calls("Unmarshal", []string{"none", "ignore", "besteffort", "shadow", "all"}, c20Both)
	}
	return c20Calls("Unmarshal", []string{"none", "all"}, c20Both)
}

func (pl *c20Plan) getDelCalls(second bool) []c20Call {
	if pl.full && !pl.lean && !second {
		return append(c20Calls("GetNode", []string{"none", "partial", "wildcards", "tolnil", "shadow", "all"}, []string{"state"}),
			c20Calls("DeleteNode", []string{"none", "shadow"}, []string{"state"})...)
	}
	return append(c20Calls("GetNode", []string{"none", "partial", "wildcards", "tolnil", "all"}, []string{"state"}),
		c20Calls("DeleteNode", []string{"none", "shadow"}, []string{"state"})...)
}

func (pl *c20Plan) setCalls(second bool) []c20Call {
	if pl.full && !pl.lean && !second {
		return c20Calls("SetNode", []string{"none", "init", "tolerant", "shadow", "all"}, c20Both)
	}
	return []c20Call{{"SetNode", "none", "state"}, {"SetNode", "init", "empty"}, {"SetNode", "init", "state"}, {"SetNode", "all", "empty"}, {"SetNode", "all", "state"}}
}

// reqCalls: form is update | replace | delete.
func (pl *c20Plan) reqCalls(form string, second bool) []c20Call {
	var out []c20Call
	switch {
	case pl.full && !pl.lean && !second: // 16 calls (update form)
		out = c20Calls("UnmarshalSetRequest", []string{"none", "besteffort", "all"}, c20Both)
		if form != "replace" {
			out = append(out, c20Calls("UnmarshalNotifications", []string{"none", "all"}, c20Both)...)
		}
		out = append(out, c20Call{"DiffSetRequest:ab", "noschema", ""}, c20Call{"DiffSetRequest:ab", "schema", ""},
			c20Call{"DiffSetRequest:ba", "noschema", ""}, c20Call{"DiffSetRequest:aa", "noschema", ""},
			c20Call{"DiffSetRequestToNotifications:set", "noschema", ""}, c20Call{"DiffSetRequestToNotifications:set", "schema", ""})
		if form == "update" {
			out = append(out, c20Call{"DiffSetRequestToNotifications:notif", "noschema", ""}, c20Call{"DiffSetRequestToNotifications:notif", "schema", ""})
		}
	case !pl.lean: // 10 calls
		out = []c20Call{{"UnmarshalSetRequest", "none", "empty"}, {"UnmarshalSetRequest", "all", "state"}}
		if form != "replace" {
			out = append(out, c20Call{"UnmarshalNotifications", "none", "state"}, c20Call{"UnmarshalNotifications", "all", "empty"})
		}
		out = append(out, c20Call{"DiffSetRequest:ab", "noschema", ""}, c20Call{"DiffSetRequest:ab", "schema", ""},
			c20Call{"DiffSetRequest:aa", "noschema", ""}, c20Call{"DiffSetRequestToNotifications:set", "noschema", ""})
		if form == "update" {
			out = append(out, c20Call{"DiffSetRequestToNotifications:notif", "noschema", ""}, c20Call{"DiffSetRequestToNotifications:notif", "schema", ""})
		}
	default: // 7 calls (quick: 6, without UnmarshalNotifications)
		out = []c20Call{{"UnmarshalSetRequest", "none", "empty"}, {"UnmarshalSetRequest", "all", "state"}}
		if form != "replace" && pl.full {
			out = append(out, c20Call{"UnmarshalNotifications", "none", "state"})
		}
		out = append(out, c20Call{"DiffSetRequest:ab", "noschema", ""}, c20Call{"DiffSetRequest:ab", "schema", ""}, c20Call{"DiffSetRequest:aa", "noschema", ""})
		if form == "update" {
			out = append(out, c20Call{"DiffSetRequestToNotifications:notif", "noschema", ""})
		}
	}
	return out
}

// ---- evaluation of one state ---------------------------------------------------------------------

func (a *c20Agg) evalJSON(b *c20Bases, pl *c20Plan) {
	if pl.jsonDev == 0 {
		return
	}
	var baseReq *c20Req = &c20Req{}
	if len(b.reqs) > 0 {
		baseReq = b.reqs[0].Req
	}
	for _, d := range b.docs {
		d := d
		root := d.Sel == "/"
		maxDev := pl.jsonDev
		if !root {
			if !pl.jsonSub {
				continue
			}
			maxDev = 1 // sub-documents: single deviations (their multi-deviation forms are parts of the root document's)
		}
		c20JSONEnum(d.Tree, 0, maxDev, nil, func(v interface{}, devs []string) {
			doc, err := json.Marshal(v)
			if err != nil {
				return
			}
			a.input("json", devs)
			text := func() string { return string(doc) }
			sel := "doc:" + d.Sel
			second := len(devs) >= 2
			if root {
				din := &c20Input{Doc: doc}
				for _, c := range pl.unmarshalCalls(second) {
					a.call("json", c.target, c.opt, c.dest, sel, devs, din, text)
				}
			}
			if second || (root && !pl.jsonDiff) {
				return
			}
			in := &c20Input{Path: d.Path, Val: c20JSONIETF(doc)}
			for _, c := range []c20Call{{"SetNode", "init", "empty"}, {"SetNode", "all", "state"}} {
				a.call("json", c.target, c.opt, c.dest, sel, devs, in, text)
			}
			upd := &gpb.Update{Path: d.Path, Val: c20JSONIETF(doc)}
			for _, mode := range []string{"update", "replace"} {
				r := &c20Req{Update: []*gpb.Update{upd}}
				if mode == "replace" {
					r = &c20Req{Replace: []*gpb.Update{upd}}
				}
				rin := &c20Input{Req: r, Base: baseReq}
				for _, so := range c20DiffOpts {
					a.call("json", "DiffSetRequest:ab", so+"/"+mode, "", sel, devs, rin, text)
					if mode == "update" {
						a.call("json", "DiffSetRequestToNotifications:notif", so+"/"+mode, "", sel, devs, rin, text)
					}
				}
			}
		})
	}
}

var c20DiffOpts = []string{"noschema", "schema"}

// c20Dev is one deviation of an input of type T; Apply returns a fresh deviating copy.
type c20Dev[T any] struct {
	Name  string
	Apply func() T
}

// c20Enum calls visit for x and for every input reachable by <= maxDev deviations. The same
// malformed input is reached through several orders of deviations; from the second deviation on,
// inputs are identified by their faithful text rendering and evaluated once.
func c20Enum[T any](x T, maxDev int, devs []string, seen map[string]bool, devsOf func(T) []c20Dev[T], textOf func(T) string, visit func(T, []string)) {
	if len(devs) == 0 {
		visit(x, nil)
		if maxDev > 1 {
			seen[textOf(x)] = true
		}
	}
	if len(devs) >= maxDev {
		return
	}
	type gen struct {
		y  T
		nd []string
	}
	var next []gen
	for _, d := range devsOf(x) {
		y := d.Apply()
		nd := append(append([]string{}, devs...), d.Name)
		if maxDev > 1 {
			k := textOf(y)
			if len(nd) > 1 && seen[k] {
				continue
			}
			seen[k] = true
		}
		visit(y, nd)
		next = append(next, gen{y, nd})
	}
	if len(devs)+1 < maxDev {
		for _, g := range next {
			c20Enum(g.y, maxDev, g.nd, seen, devsOf, textOf, visit)
		}
	}
}

// c20ApplyNames re-applies deviations by name (replay).
func c20ApplyNames[T any](x T, names []string, devsOf func(T) []c20Dev[T]) (T, bool) {
	for _, n := range names {
		found := false
		for _, d := range devsOf(x) {
			if d.Name == n {
				x, found = d.Apply(), true
				break
			}
		}
		if !found {
			return x, false
		}
	}
	return x, true
}

func c20PathDevsG(p *gpb.Path) []c20Dev[*gpb.Path] {
	var out []c20Dev[*gpb.Path]
	for _, pd := range c20PathDevs(p) {
		pd := pd
		out = append(out, c20Dev[*gpb.Path]{pd.Name, func() *gpb.Path { return pd.F(c20CpPath(p)) }})
	}
	return out
}

func (a *c20Agg) evalPaths(b *c20Bases, pl *c20Plan) {
	if pl.pathDev == 0 {
		return
	}
	for _, bp := range b.paths {
		bp := bp
		c20Enum(bp.Path, pl.pathDev, nil, map[string]bool{}, c20PathDevsG, c20PathText, func(q *gpb.Path, devs []string) {
			a.input("path", devs)
			in := &c20Input{Path: q}
			text := func() string { return c20PathText(q) }
			for _, c := range pl.getDelCalls(len(devs) >= 2) {
				a.call("path", c.target, c.opt, c.dest, "path:"+bp.Sel, devs, in, text)
			}
		})
	}
}

// c20UV is a (path, value) pair handed to SetNode; V is a *gpb.TypedValue or untyped nil.
type c20UV struct {
	P *gpb.Path
	V interface{}
}

func (u c20UV) text() string {
	if tv, ok := u.V.(*gpb.TypedValue); ok {
		return c20PathText(u.P) + " = " + c20TVText(tv)
	}
	return c20PathText(u.P) + " = <untyped nil>"
}

func c20UVDevs(u c20UV) []c20Dev[c20UV] {
	var out []c20Dev[c20UV]
	tv, isTV := u.V.(*gpb.TypedValue)
	cpV := func() interface{} {
		if isTV {
			return c20CpTV(tv)
		}
		return nil
	}
	for _, pd := range c20PathDevs(u.P) {
		pd := pd
		out = append(out, c20Dev[c20UV]{"path:" + pd.Name, func() c20UV { return c20UV{pd.F(c20CpPath(u.P)), cpV()} }})
	}
	if !isTV {
		return out
	}
	out = append(out, c20Dev[c20UV]{"val:untyped-nil", func() c20UV { return c20UV{c20CpPath(u.P), nil} }})
	for _, td := range c20TVDevs(tv) {
		td := td
		out = append(out, c20Dev[c20UV]{"val:" + td.Name, func() c20UV { return c20UV{c20CpPath(u.P), td.F(c20CpTV(tv))} }})
	}
	return out
}

func (a *c20Agg) evalUpdates(b *c20Bases, pl *c20Plan) {
	if pl.updDev == 0 {
		return
	}
	for _, bu := range b.upds {
		bu := bu
		c20Enum(c20UV{bu.Path, bu.Val}, pl.updDev, nil, map[string]bool{}, c20UVDevs, c20UV.text, func(u c20UV, devs []string) {
			a.input("update", devs)
			in := &c20Input{Path: u.P, Val: u.V}
			for _, c := range pl.setCalls(len(devs) >= 2) {
				a.call("update", c.target, c.opt, c.dest, "upd:"+bu.Sel, devs, in, u.text)
			}
		})
	}
}

// c20ReqDevsG: inner = include the path / TypedValue deviations of every part. A request that already
// carries an inner deviation only takes request-level deviations next, and vice versa both kinds, so
// every 2-deviation request has at least one request-level deviation (two inner deviations of one
// update are the update family's 2-deviation inputs).
func c20ReqDevsG(inner bool) func(r *c20Req) []c20Dev[*c20Req] {
	return func(r *c20Req) []c20Dev[*c20Req] {
		var out []c20Dev[*c20Req]
		for _, d := range c20ReqDevs(r, inner && !r.innerDev) {
			d := d
			isInner := strings.Contains(d.Name, ".path:") || strings.Contains(d.Name, ".val:")
			out = append(out, c20Dev[*c20Req]{d.Name, func() *c20Req {
				x := r.clone()
				d.F(x)
				x.innerDev = r.innerDev || isInner
				return x
			}})
		}
		return out
	}
}

// c20DiffBase: the valid counterpart for the diffs is the update form of the same notification.
func c20DiffBase(b *c20Bases, sel string) *c20Req {
	n := strings.TrimSuffix(strings.TrimSuffix(strings.TrimSuffix(sel, ":delete"), ":replace"), ":update")
	for _, o := range b.reqs {
		if o.Sel == n+":update" {
			return o.Req
		}
	}
	return &c20Req{}
}

func (a *c20Agg) evalRequests(b *c20Bases, pl *c20Plan) {
	if pl.reqDev == 0 {
		return
	}
	for _, br := range b.reqs {
		br := br
		form := br.Sel[strings.IndexByte(br.Sel, ':')+1:]
		if form == "delete" && pl.lean && !pl.full {
			continue // quick, class B: update and replace forms only
		}
		base := c20DiffBase(b, br.Sel)
		maxDev, inner := pl.reqDev, pl.reqInner == 2 || (pl.reqInner == 1 && form == "update")
		if form != "update" && maxDev > 1 {
			maxDev = 1
		}
		c20Enum(br.Req, maxDev, nil, map[string]bool{}, c20ReqDevsG(inner), (*c20Req).text, func(x *c20Req, devs []string) {
			a.input("request", devs)
			in := &c20Input{Req: x, Base: base}
			for _, c := range pl.reqCalls(form, len(devs) >= 2) {
				a.call("request", c.target, c.opt, c.dest, "req:"+br.Sel, devs, in, x.text)
			}
		})
	}
}

// ---- string family ------------------------------------------------------------------------------

var c20StrAlpha = []string{"a", "/", "[", "]", "=", `\`, " "}
var c20StrTargets = []string{"StringToPath", "StringToStructuredPath", "StringToStringSlicePath"}

func (r *c20Run) evalStrings(maxLen int) {
	// all strings of length <= maxLen; split by the first two characters for parallelism
	var prefixes []string
	prefixes = append(prefixes, "")
	for _, x := range c20StrAlpha {
		prefixes = append(prefixes, x)
	}
	var two []string
	for _, x := range c20StrAlpha {
		for _, y := range c20StrAlpha {
			two = append(two, x+y)
		}
	}
	total := int64(0)
	core.ParallelFor(len(two)+1, func(i int) {
		a := &c20Agg{run: r, counts: map[string]*[3]int64{}, inputs: map[string]int64{}, kinds: map[string]struct{}{}, sidx: i}
		evalOne := func(s string) {
			a.inputs["string"]++
			in := &c20Input{Str: s}
			for _, t := range c20StrTargets {
				a.call("string", t, "", "", "", nil, in, func() string { return fmt.Sprintf("%q", s) })
			}
		}
		if i == len(two) {
			for _, s := range prefixes {
				evalOne(s)
			}
		} else {
			var rec func(s string)
			rec = func(s string) {
				evalOne(s)
				if len(s) >= maxLen {
					return
				}
				for _, x := range c20StrAlpha {
					rec(s + x)
				}
			}
			if maxLen >= 2 {
				rec(two[i])
			}
		}
		a.kinds["string|len<="+fmt.Sprint(maxLen)] = struct{}{}
		atomic.AddInt64(&total, a.inputs["string"])
		a.flush()
	})
	r.c.R.Note("string_inputs", total)
}

// evalCorpusStrings: the rendered path strings of the corpus with every single character edit
// (substitute / insert / delete) over the same alphabet.
func (r *c20Run) evalCorpusStrings(strs []string) {
	core.ParallelFor(len(strs), func(i int) {
		a := &c20Agg{run: r, counts: map[string]*[3]int64{}, inputs: map[string]int64{}, kinds: map[string]struct{}{}, sidx: i}
		s := strs[i]
		seen := map[string]bool{}
		evalOne := func(m string) {
			if seen[m] {
				return
			}
			seen[m] = true
			a.inputs["string"]++
			in := &c20Input{Str: m}
			for _, t := range c20StrTargets {
				a.call("string", t, "", "", "", nil, in, func() string { return fmt.Sprintf("%q", m) })
			}
		}
		evalOne(s)
		for j := 0; j <= len(s); j++ {
			for _, x := range c20StrAlpha {
				evalOne(s[:j] + x + s[j:])
				if j < len(s) {
					evalOne(s[:j] + x + s[j+1:])
				}
			}
			if j < len(s) {
				evalOne(s[:j] + s[j+1:])
			}
		}
		a.kinds["string|corpus-path-edit"] = struct{}{}
		a.flush()
	})
}

// ---- explorer -----------------------------------------------------------------------------------

func c20IsFocusState(atoms []*core.Atom) bool {
	for _, a := range atoms {
		if !a.Focus {
			return false
		}
	}
	return true
}

func (r *c20Run) evalState(p *core.Pkg, atoms []*core.Atom, sidx int, pl *c20Plan, corpusStrs map[string]bool, smu *sync.Mutex) {
	b, err := c20MakeBases(p, atoms)
	if err != nil {
		return
	}
	a := &c20Agg{run: r, p: p, atoms: atoms, names: atomNames(atoms), tree: b.tree, sidx: sidx,
		counts: map[string]*[3]int64{}, inputs: map[string]int64{}, kinds: map[string]struct{}{}}
	a.evalJSON(b, pl)
	a.evalPaths(b, pl)
	if b.notifErr == "" {
		a.evalUpdates(b, pl)
		a.evalRequests(b, pl)
	} else {
		a.kinds["excluded|no-notifications (unkeyed list: documented TogNMINotifications error)"] = struct{}{}
		r.c.R.Add("states_without_gnmi_rendering", 1)
	}
	if corpusStrs != nil {
		smu.Lock()
		for _, bp := range b.paths {
			if s, err := ygot.PathToString(bp.Path); err == nil {
				corpusStrs[s] = true
			}
		}
		smu.Unlock()
	}
	a.flush()
}

var c20Pkgs = []string{"vtus", "vtuw", "voccs"}

// c20TouchesUnion: does the atom pass through a wrapper-union typed field (interface-typed leaf,
// leaf-list element or list key)?
func c20TouchesUnion(p *core.Pkg, a *core.Atom) bool {
	t := p.RootType
	for _, st := range a.Steps {
		for t.Kind() == reflect.Ptr {
			t = t.Elem()
		}
		if t.Kind() != reflect.Struct {
			return false
		}
		f, ok := t.FieldByName(st.Field)
		if !ok {
			return false
		}
		ft := f.Type
		switch ft.Kind() {
		case reflect.Interface:
			return true
		case reflect.Slice:
			if ft.Elem().Kind() == reflect.Interface {
				return true
			}
			t = ft.Elem()
		case reflect.Map:
			if ft.Key().Kind() == reflect.Interface {
				return true
			}
			t = ft.Elem()
		default:
			t = ft
		}
	}
	return false
}

// c20PlanFor classifies a state and returns its plan (nil: the state is not used as a base).
//
//	class A  k<=1, full alphabet                       all families
//	class B  k=2 over the focused alphabet             (vtuw: only states touching a union)
//	class C  the remaining k=2 states, full alphabet   thorough only: root JSON document -> Unmarshal
func c20PlanFor(p *core.Pkg, atoms []*core.Atom, thorough bool) (*c20Plan, string) {
	focus := c20IsFocusState(atoms)
	union := false
	for _, a := range atoms {
		union = union || c20TouchesUnion(p, a)
	}
	switch {
	case len(atoms) <= 1:
		if !thorough {
			return &c20Plan{jsonDev: 1, jsonSub: true, jsonDiff: true, pathDev: 1, updDev: 1, reqDev: 1, reqInner: 2}, "A"
		}
		pl := &c20Plan{full: true, jsonDev: 2, jsonSub: true, jsonDiff: true, pathDev: 2, updDev: 1, reqDev: 1, reqInner: 2}
		if focus && (!p.Wrapper || union || len(atoms) == 0) {
			pl.updDev, pl.reqDev = 2, 2
		}
		return pl, "A"
	case focus && (!p.Wrapper || union):
		if !thorough {
			return &c20Plan{lean: true, jsonDev: 1, reqDev: 1}, "B"
		}
		return &c20Plan{full: true, lean: true, jsonDev: 2, jsonSub: true, jsonDiff: true, pathDev: 1, updDev: 1, reqDev: 1, reqInner: 1}, "B"
	case thorough:
		return &c20Plan{lean: true, single: true, jsonDev: 1}, "C"
	}
	return nil, ""
}

func c20RuleText(thorough bool, strLen int) string {
	s := "deviation-bounded exhaustive malformation (no sampling). Bases are derived from the states of the k<=2 exploration of packages vtus, vtuw, voccs: " +
		"the Marshal7951 JSON of the root and of every container / list entry, the gNMI paths of all nodes (reference Path.GNMI()), the (path, TypedValue) updates and the " +
		"SetRequests (update / replace / delete form) and Notifications built from TogNMINotifications. A deviation substitutes one shape atom at one position: " +
		"JSON {null,true,1,1.5,\"s\",[],[null],[1],[\"s\"],[{}],[[]],{},{\"x\":1}} at the root / any member / any element; " +
		"path {nil path, nil / empty / unknown / * / .. element, missing / extra / empty-map / empty / * / unparsable key, appended unknown / nil element, truncation, legacy element form, origin+target}; " +
		"TypedValue {nil, empty, every oneof alternative with nil / empty / minimal payload, the 13 JSON atoms as json_ietf, leaf-list element replaced / repeated}; " +
		"request {nil request, nil notification, atomic flag, prefix nil / empty / split, nil update (replaced / appended / prepended), nil val, nil path, update repeated (same pointer / copy / first), " +
		"conflicting duplicate (2 values), update also in replace, update also deleted, parent deleted, nil / root / repeated delete, plus every path and TypedValue deviation of every update, delete and prefix}. "
	if thorough {
		s += "Classes of base states: A = k<=1 over the full alphabet: JSON and paths <= 2 deviations, updates and requests <= 1 (all forms, all parts), and for focused atoms (vtuw: union atoms) updates <= 2 and " +
			"update-form requests <= 2 of which at least one is request-level; B = k=2 over the focused alphabet (vtuw: states touching a union): root JSON <= 2, sub-documents, paths, updates <= 1, requests <= 1 " +
			"(path / TypedValue deviations in the update form only); C = all other k=2 states: root JSON <= 1 deviation -> Unmarshal (no options, empty root). "
	} else {
		s += "Classes of base states: A = k<=1 over the full alphabet: every input with <= 1 deviation, all families; " +
			"B = k=2 over the focused alphabet (vtuw: states touching a union): root JSON <= 1 deviation -> Unmarshal, update- and replace-form requests with <= 1 request-level deviation. "
	}
	s += fmt.Sprintf("Strings: all strings of length <= %d over {a / [ ] = \\ space} and every single-character edit of the corpus path strings. ", strLen) +
		"Entry points: generated Unmarshal; ytypes.GetNode / DeleteNode / SetNode (option sets none / each / all); UnmarshalSetRequest / UnmarshalNotifications (none / besteffort / all) " +
		"on an empty root and on the populated state; gnmidiff.DiffSetRequest (malformed vs valid, valid vs malformed, malformed vs itself) and DiffSetRequestToNotifications (malformed request / malformed notifications), " +
		"each with nil schema and with the package schema; ygot.StringToPath / StringToStructuredPath / StringToStringSlicePath. Oracle: the call returns; a recovered panic is a violation. " +
		"non-trivial = distinct combination of deviation kinds."
	return s
}

func runC20(c *core.Ctx) {
	c.Level = "exploration"
	if pf := os.Getenv("C20_PROF"); pf != "" {
		fh, _ := os.Create(pf)
		pprof.StartCPUProfile(fh)
		defer pprof.StopCPUProfile()
	}
	thorough := c.Thorough()
	// tens of millions of short-lived allocations over a live heap of a few MB: collect by heap
	// size instead of by growth ratio, otherwise the collector runs dozens of cycles per second
	debug.SetGCPercent(-1)
	debug.SetMemoryLimit(2 << 30)
	strLen := 6
	if thorough {
		strLen = 7
	}
	r := &c20Run{c: c, viols: map[string]*c20Viol{}, counts: map[string]*[3]int64{}, inputs: map[string]int64{}, kinds: map[string]struct{}{}}
	c.Rule = c20RuleText(thorough, strLen)
	c.R.Assume("a panic that kills the process (stack exhaustion, fatal runtime error) or a non-terminating call is not recoverable and would abort the run rather than be reported")
	c.R.Assume("wrapper-union package vtuw differs from vtus only where a union-typed node is involved, so its two-atom states are restricted to those touching a union")

	corpusStrs := map[string]bool{}
	var smu sync.Mutex
	for pi, pn := range c20Pkgs {
		p := core.PkgByName(pn)
		if p == nil {
			continue
		}
		k := 2
		sp := core.Explore(p, p.Atoms(), k)
		type job struct {
			st core.State
			pl *c20Plan
		}
		var jobs []job
		classes := map[string]int{}
		for _, st := range sp.States {
			pl, class := c20PlanFor(p, sp.SeqAtoms(st), thorough)
			if pl != nil {
				jobs = append(jobs, job{st, pl})
				classes[class]++
			}
		}
		c.R.Add("states", int64(len(jobs)))
		c.R.Note("space_"+p.Name, map[string]interface{}{"atoms": len(p.Atoms()), "k": k, "states_explored": len(sp.States), "states_used_as_bases": len(jobs), "by_class": classes})
		core.ParallelFor(len(jobs), func(i int) {
			if atomic.LoadInt32(&r.stop) != 0 {
				return
			}
			if i%16 == 0 && c.Expired() {
				atomic.StoreInt32(&r.stop, 1)
				return
			}
			r.evalState(p, sp.SeqAtoms(jobs[i].st), pi*10000000+i, jobs[i].pl, corpusStrs, &smu)
		})
	}
	r.evalStrings(strLen)
	var cs []string
	for s := range corpusStrs {
		cs = append(cs, s)
	}
	sort.Strings(cs)
	r.evalCorpusStrings(cs)
	c.R.Note("corpus_path_strings", len(cs))

	// flush to the reporter
	var total int64
	perTarget := map[string]map[string]int64{}
	for t, v := range r.counts {
		total += v[0] + v[1] + v[2]
		perTarget[t] = map[string]int64{"returned_nil": v[0], "returned_error": v[1], "panicked": v[2]}
		c.R.OutcomeN(t+":returned-nil", v[0])
		c.R.OutcomeN(t+":returned-error", v[1])
		c.R.OutcomeN(t+":panicked", v[2])
	}
	c.R.Add("evaluations", total)
	c.R.Note("calls_per_entry_point", perTarget)
	c.R.Note("malformed_inputs_per_family", r.inputs)
	c.R.Note("determinism", "the enumeration and the set of signatures are fixed; the split between returned-nil / returned-error (and, for gnmidiff, error / panic) of a few hundred calls varies between runs because ygot iterates Go maps (not judged by this property)")
	var kinds []string
	for k := range r.kinds {
		c.R.NonTrivial(k)
		kinds = append(kinds, k)
	}
	sort.Strings(kinds)
	if len(kinds) > 400 {
		kinds = kinds[:400]
	}
	c.R.Note("deviation_kinds_sample", kinds)
	var sigs []string
	for s := range r.viols {
		sigs = append(sigs, s)
	}
	sort.Strings(sigs)
	for _, s := range sigs {
		v := r.viols[s]
		c.R.ViolationN(s, v.detail, v.cs, v.count)
	}
	c.R.Sample(c20Case{Fam: "json", Target: "Unmarshal", Pkg: "vtus", Atoms: []string{"/Top/KlStr[str:a]"}, Base: "doc:/", Devs: []string{"#3 /vt:top/kl-str/0 |object<-1"}, Text: `{"vt:top":{"kl-str":[1]}}`})
	c.R.Sample(c20Case{Fam: "request", Target: "DiffSetRequest:ab", Pkg: "vtus", Atoms: []string{"/Top/LlStr=ll:[\"str:a\"]"}, Base: "req:0:update", Devs: []string{"update[0]:repeated-copy"}})
	c.R.Sample(c20Case{Fam: "path", Target: "GetNode", Pkg: "voccs", Base: "path:/", Devs: []string{"append-nil-elem"}, Text: "/<nil-elem>"})
	c.R.Sample(c20Case{Fam: "string", Target: "StringToStructuredPath", Str: `/a[a=\]`})
}

// ---- replay -------------------------------------------------------------------------------------

func replayC20(c *core.Ctx, raw []byte) (bool, string) {
	var cs c20Case
	if err := json.Unmarshal(raw, &cs); err != nil {
		return false, err.Error()
	}
	in := &c20Input{Str: cs.Str}
	var p *core.Pkg
	var atoms []*core.Atom
	if cs.Fam != "string" {
		p = core.PkgByName(cs.Pkg)
		if p == nil {
			return false, "unknown package"
		}
		var ok bool
		if atoms, ok = p.AtomsByName(cs.Atoms); !ok {
			return false, "unknown atoms"
		}
		b, err := c20MakeBases(p, atoms)
		if err != nil {
			return false, "cannot rebuild state: " + err.Error()
		}
		switch cs.Fam {
		case "json":
			var doc *c20Doc
			for i := range b.docs {
				if "doc:"+b.docs[i].Sel == cs.Base {
					doc = &b.docs[i]
				}
			}
			if doc == nil {
				return false, "base document not found"
			}
			v := doc.Tree
			for _, d := range cs.Devs {
				var ok bool
				if v, ok = c20JSONApply(v, d); !ok {
					return false, "deviation not applicable: " + d
				}
			}
			j, _ := json.Marshal(v)
			in.Doc, in.Path, in.Val = j, doc.Path, c20JSONIETF(j)
			upd := &gpb.Update{Path: doc.Path, Val: c20JSONIETF(j)}
			in.Req = &c20Req{Update: []*gpb.Update{upd}}
			if strings.HasSuffix(cs.Opt, "/replace") {
				in.Req = &c20Req{Replace: []*gpb.Update{upd}}
			}
			in.Base = &c20Req{}
			if len(b.reqs) > 0 {
				in.Base = b.reqs[0].Req
			}
		case "path":
			var bp *c20BasePath
			for i := range b.paths {
				if "path:"+b.paths[i].Sel == cs.Base {
					bp = &b.paths[i]
				}
			}
			if bp == nil {
				return false, "base path not found"
			}
			q, ok := c20ApplyNames(bp.Path, cs.Devs, c20PathDevsG)
			if !ok {
				return false, "deviation not applicable"
			}
			in.Path = q
		case "update":
			var bu *c20BaseUpd
			for i := range b.upds {
				if "upd:"+b.upds[i].Sel == cs.Base {
					bu = &b.upds[i]
				}
			}
			if bu == nil {
				return false, "base update not found"
			}
			u, ok := c20ApplyNames(c20UV{bu.Path, bu.Val}, cs.Devs, c20UVDevs)
			if !ok {
				return false, "deviation not applicable"
			}
			in.Path, in.Val = u.P, u.V
		case "request":
			var br *c20BaseReq
			for i := range b.reqs {
				if "req:"+b.reqs[i].Sel == cs.Base {
					br = &b.reqs[i]
				}
			}
			if br == nil {
				return false, "base request not found"
			}
			x, ok := c20ApplyNames(br.Req, cs.Devs, c20ReqDevsG(true))
			if !ok {
				return false, "deviation not applicable"
			}
			in.Req, in.Base = x, c20DiffBase(b, br.Sel)
		default:
			return false, "unknown family"
		}
	}
	_, pmsg, frame := c20Guard(func() error { return c20Exec(p, atoms, nil, cs.Target, cs.Opt, cs.Dest, in) })
	if pmsg != "" {
		return true, "panic@" + c20SigTarget(cs.Target) + ":" + frame + ":" + c20NormMsg(pmsg) + " -- " + pmsg
	}
	return false, "returned normally"
}
