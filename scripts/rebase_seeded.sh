#!/bin/bash
# dev helper: re-applies a seeded patch on the current /repo tree hunk by hunk (git apply --reject) in a scratch copy
# left at /var/tmp/rebase-<id>; `finish` rewrites seeded/<id>/patch.diff as a diff of that copy against /repo.
ID=$1; MODE=${2:-start}; V=$(cd "$(dirname "$0")/.." && pwd); S=/var/tmp/rebase-$ID
if [ "$MODE" = start ]; then
  rm -rf $S; rsync -a --exclude .git /repo/ $S/ || exit 2
  SRC="$V/seeded/$ID/patch.diff"; [ -f "$V/seeded/$ID/patch.orig.diff" ] && SRC="$V/seeded/$ID/patch.orig.diff"
  ( cd $S && git apply --reject -C1 --whitespace=nowarn "$SRC" 2>&1 | grep -v "^Checking\|cleanly" )
  find $S -name '*.rej'
  exit 0
fi
find $S -name '*.rej' -o -name '*.orig' | xargs rm -f
[ -f "$V/seeded/$ID/patch.orig.diff" ] || cp "$V/seeded/$ID/patch.diff" "$V/seeded/$ID/patch.orig.diff"
( cd /var/tmp && diff -ruN --exclude .git /repo $S | sed -e "s#^--- /repo/#--- a/#" -e "s#^+++ $S/#+++ b/#" -e "/^diff -ruN/d" ) > "$V/seeded/$ID/patch.diff"
echo "$ID: rebased ($(grep -c '^@@' "$V/seeded/$ID/patch.diff") hunks)"; rm -rf $S
