#!/bin/bash
# dev helper: runs every seeded change against the check of its own property (quick tier) and prints one line each.
V=$(cd "$(dirname "$0")/.." && pwd)
for d in "$V"/seeded/C*; do
  id=$(basename $d)
  out=$(LINES_MAX=400 "$V/scripts/run_seeded.sh" $id $id 2>&1)
  nv=$(echo "$out" | grep -c '^VIOLATION')
  first=$(echo "$out" | grep -m1 '^VIOLATION' | sed 's/.*sig=\([^ ]*\).*/\1/' | cut -c1-90)
  err=$(echo "$out" | grep -m1 -i 'ERROR\|does not apply\|FAILED' | cut -c1-100)
  echo "$id violations=$nv first=$first $err"
done
