#!/bin/bash
# dev helper: seeded_round.sh <dir-with-<id>/patch.diff> <ids...>: runs each change against the check of its own property.
V=$(cd "$(dirname "$0")/.." && pwd); D=$1; shift
for id in "$@"; do
  out=$(LINES_MAX=400 "$V/scripts/run_seeded.sh" "$D/$id" $id ${TIER:-quick} 2>&1)
  nv=$(echo "$out" | grep -c '^VIOLATION')
  first=$(echo "$out" | grep -m1 '^VIOLATION' | sed 's/.*sig=\([^ ]*\).*/\1/' | cut -c1-110)
  err=$(echo "$out" | grep -m1 -i 'ERROR\|does not apply\|FAILED' | cut -c1-100)
  echo "$id violations=$nv first=$first $err"
done
