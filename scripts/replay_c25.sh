#!/bin/bash
# usage: scripts/replay_c25.sh <replay file>  -- re-executes one recorded C25 violation from the current repository
# (rebuilds the instrumented generator for the recorded site only; no explorer involved). Exit 1 + VIOLATION line
# when it reproduces, 0 when it does not, 2 on infrastructure errors.
ID=C25
. "$(dirname "$0")/lib.sh"
[ -f "$1" ] || die "usage: replay_c25.sh <replay file>"
mkwork "$ID-replay"
make_overlay
(cd "$REPO" && $GO build -tags verif -overlay "$WORK/overlay.json" -o "$WORK/c25x" ./zzverif/c25/explorer) >"$WORK/build.log" 2>&1 || { cat "$WORK/build.log" >&2; die "cannot build the C25 explorer"; }
"$WORK/c25x" -replay "$1" -verif "$VERIF" -repo "$REPO" -work "$WORK" -go "$GO"
