#!/bin/bash
# usage: scripts/check_c25.sh <quick|thorough> [extra explorer args]
# Property C25 (code generation is deterministic): a separate binary, because it builds instrumented copies of
# the generator packages (map-iteration-order seam, see harness/c25). Same contract as scripts/check.sh:
# exit 0: held on everything explored; 1: `VIOLATION property=C25 replay=<path>` printed; 2: infrastructure error.
# Environment: VERIF (harness dir), VERIF_REPO (repository, default /repo), VERIF_OUT (directory for evidence/ and
# replays/), VERIF_SEED, VERIF_GO (go command), VERIF_JOBS (parallel generator processes, default: all cores).
ID=C25; TIER=${1:-${VERIF_TIER:-quick}}; shift || true
. "$(dirname "$0")/lib.sh"
case "$TIER" in quick|thorough) ;; *) die "usage: check_c25.sh <quick|thorough>";; esac
mkwork "$ID"
make_overlay
(cd "$REPO" && $GO build -tags verif -overlay "$WORK/overlay.json" -o "$WORK/c25x" ./zzverif/c25/explorer) >"$WORK/build.log" 2>&1 || { cat "$WORK/build.log" >&2; die "cannot build the C25 explorer"; }
OUTARG=(); [ -n "$VERIF_OUT" ] && { mkdir -p "$VERIF_OUT" || die "cannot create $VERIF_OUT"; OUTARG=(-out "$VERIF_OUT"); }
mkdir -p "${VERIF_OUT:-$VERIF}/evidence" "${VERIF_OUT:-$VERIF}/replays/$ID"
JOBS=(); [ -n "$VERIF_JOBS" ] && JOBS=(-jobs "$VERIF_JOBS")
"$WORK/c25x" -tier "$TIER" -seed "${VERIF_SEED:-0}" -verif "$VERIF" -repo "$REPO" -work "$WORK" -go "$GO" "${OUTARG[@]}" "${JOBS[@]}" "$@"
rc=$?
exit $rc
