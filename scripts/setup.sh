#!/bin/bash
# Run once after a fresh restore: warms the Go build cache by building the generator, the corpus
# packages and the harness from files on disk only (offline).
. "$(dirname "$0")/lib.sh"
# known_findings.txt is never written by a check; a malformed line would silently drop an entry
python3 - "$VERIF/known_findings.txt" <<'PY' || die "known_findings.txt is malformed"
import re, sys
bad = 0
for n, l in enumerate(open(sys.argv[1]), 1):
    l = l.rstrip("\n")
    if not l.strip() or l.startswith("#"):
        continue
    if not re.match(r"(known: property=C\d\d (sig|sigre)=\S.* :: \S|fixed: property=C\d\d [0-9a-f]{7,40} \S)", l) or re.search(r".(known|fixed): property=C\d\d ", l[1:]):
        print("known_findings.txt:%d: malformed line: %s" % (n, l[:120])); bad += 1
sys.exit(1 if bad else 0)
PY
mkwork setup
gen_corpus
build_vchk
echo "setup ok"
