#!/bin/bash
# Run once after a fresh restore: warms the Go build cache by building the generator, the corpus
# packages and the harness from files on disk only (offline).
. "$(dirname "$0")/lib.sh"
mkwork setup
gen_corpus
build_vchk
echo "setup ok"
