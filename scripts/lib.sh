# Shared shell helpers for the verification checks. Source, do not execute.
export GOFLAGS=-mod=mod GOPROXY=off GOSUMDB=off GOTOOLCHAIN=local
export CARGO_NET_OFFLINE=true PIP_NO_INDEX=1
VERIF=${VERIF:-/verif}
REPO=${VERIF_REPO:-/repo}
GO=${VERIF_GO:-go}

die() { echo "ERROR $*" >&2; exit 2; }

mkwork() { # $1 = tag
  WORK=$VERIF/.work/$1-$$
  rm -rf "$WORK"; mkdir -p "$WORK" || die "cannot create $WORK"
  trap 'rm -rf "$WORK"' EXIT
}

build_generator() {
  (cd "$REPO" && $GO build -o "$WORK/generator.bin" ./generator) >"$WORK/gen.build.log" 2>&1 || { cat "$WORK/gen.build.log" >&2; die "cannot build generator from $REPO"; }
}

COMMON_GEN_FLAGS="-generate_fakeroot -fakeroot_name=device -generate_ordered_maps -yangpresence -generate_append -generate_rename -generate_delete -generate_getters -generate_populate_defaults -include_schema"

# gen_pkg <pkgname> <schema> <config> <compressed:true|false> <wrapper:true|false> <opstate> <ignoreshadow> <extra flags...> -- <yang files...>
gen_pkg() {
  local pkg=$1 schema=$2 config=$3 comp=$4 wrap=$5 opst=$6 ish=$7; shift 7
  local flags=() files=()
  while [ "$1" != "--" ]; do flags+=("$1"); shift; done; shift
  files=("$@")
  mkdir -p "$WORK/gen/$pkg"
  "$WORK/generator.bin" -path="$VERIF/schemas" -output_file="$WORK/gen/$pkg/$pkg.go" -package_name="$pkg" $COMMON_GEN_FLAGS "${flags[@]}" "${files[@]}" >"$WORK/gen/$pkg/gen.log" 2>&1 || { cat "$WORK/gen/$pkg/gen.log" >&2; die "generator failed for $pkg"; }
  cat > "$WORK/gen/$pkg/reg.go" <<EOR
package $pkg

import (
	"reflect"

	"github.com/openconfig/ygot/ygot"
	"github.com/openconfig/ygot/zzverif/core"
)

func init() {
	core.Register(&core.Pkg{
		Name: "$pkg", SchemaName: "$schema", Config: "$config",
		Compressed: $comp, Wrapper: $wrap, OpState: $opst, IgnoreShadow: $ish,
		NewRoot:  func() ygot.GoStruct { return &Device{} },
		RootType: reflect.TypeOf(Device{}), BinaryType: reflect.TypeOf(Binary(nil)),
		SchemaFn: Schema, Unmarshal: Unmarshal, EnumMap: ΛEnum, EnumTypesFn: func() map[string][]reflect.Type { return ΛEnumTypes },
	})
}
EOR
}

gen_corpus() {
  build_generator
  local VT="$VERIF/schemas/vt.yang $VERIF/schemas/vt-aug.yang" VOC="$VERIF/schemas/voc.yang"
  gen_pkg vtus vt U-simple false false false false -generate_simple_unions -- $VT &
  gen_pkg vtuw vt U-wrapper false true false false -- $VT &
  gen_pkg vocus voc U-simple false false false false -generate_simple_unions -- $VOC &
  gen_pkg vocuw voc U-wrapper false true false false -- $VOC &
  gen_pkg voccs voc C-simple true false false false -generate_simple_unions -compress_paths -- $VOC &
  gen_pkg voccw voc C-wrapper true true false false -compress_paths -- $VOC &
  gen_pkg vocco voc C-opstate true false true false -generate_simple_unions -compress_paths -prefer_operational_state -- $VOC &
  gen_pkg voccsh voc C-shadow true false false true -generate_simple_unions -compress_paths -ignore_shadow_schema_paths -- $VOC &
  wait
  for p in vtus vtuw vocus vocuw voccs voccw vocco voccsh; do [ -s "$WORK/gen/$p/$p.go" ] || die "corpus package $p was not generated"; done
  {
    echo "package main"; echo; echo "import ("
    for p in vtus vtuw vocus vocuw voccs voccw vocco voccsh; do echo "	_ \"github.com/openconfig/ygot/zzverif/gen/$p\""; done
    echo ")"
  } > "$WORK/imports_gen.go"
}

# make_overlay: writes $WORK/overlay.json mapping harness + generated files into $REPO/zzverif
make_overlay() {
  python3 - "$VERIF" "$REPO" "$WORK" "$@" <<'EOP'
import json, os, sys, glob
verif, repo, work = sys.argv[1:4]
extra = sys.argv[4:]
ov = {}
def add_dir(src, dst):
    for f in sorted(glob.glob(os.path.join(src, '*.go'))):
        ov[os.path.join(repo, dst, os.path.basename(f))] = f
for root, dirs, files in os.walk(os.path.join(verif, 'harness')):
    rel = os.path.relpath(root, os.path.join(verif, 'harness'))
    if rel.startswith('hooks'):
        continue
    add_dir(root, os.path.join('zzverif', rel))
# hooks: files added into real ygot packages (all carry //go:build verif)
hooks = os.path.join(verif, 'harness', 'hooks')
if os.path.isdir(hooks):
    for root, dirs, files in os.walk(hooks):
        rel = os.path.relpath(root, hooks)
        add_dir(root, rel)
gen = os.path.join(work, 'gen')
if os.path.isdir(gen):
    for p in sorted(os.listdir(gen)):
        add_dir(os.path.join(gen, p), os.path.join('zzverif', 'gen', p))
imp = os.path.join(work, 'imports_gen.go')
if os.path.exists(imp):
    ov[os.path.join(repo, 'zzverif', 'cmd', 'vchk', 'imports_gen.go')] = imp
for e in extra:  # dst=src
    d, s = e.split('=', 1)
    ov[d] = s
json.dump({'Replace': ov}, open(os.path.join(work, 'overlay.json'), 'w'), indent=1)
EOP
}

build_vchk() {
  make_overlay "$@"
  (cd "$REPO" && $GO build -tags verif -overlay "$WORK/overlay.json" -o "$WORK/vchk" ./zzverif/cmd/vchk) >"$WORK/build.log" 2>&1 || { cat "$WORK/build.log" >&2; die "cannot build vchk"; }
}
