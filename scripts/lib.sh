# Shared shell helpers for the verification checks. Source, do not execute.
export GOFLAGS=-mod=mod GOPROXY=off GOSUMDB=off GOTOOLCHAIN=local
export CARGO_NET_OFFLINE=true PIP_NO_INDEX=1
VERIF=${VERIF:-/verif}
REPO=${VERIF_REPO:-/repo}
GO=${VERIF_GO:-go}

die() { echo "ERROR $*" >&2; exit 2; }

mkwork() { # $1 = tag
  WORK=$VERIF/.work/$1-$$
  rm -rf "$WORK"; mkdir -p "$WORK" || die "cannot create $WORK"
  trap 'rm -rf "$WORK"' EXIT
}

build_generator() {
  (cd "$REPO" && $GO build -o "$WORK/generator.bin" ./generator) >"$WORK/gen.build.log" 2>&1 || { cat "$WORK/gen.build.log" >&2; die "cannot build generator from $REPO"; }
}

COMMON_GEN_FLAGS="-generate_fakeroot -fakeroot_name=device -generate_ordered_maps -yangpresence -generate_append -generate_rename -generate_delete -generate_getters -generate_populate_defaults -include_schema"

# gen_pkg <pkgname> <schema> <config> <compressed:true|false> <wrapper:true|false> <opstate> <ignoreshadow> <extra flags...> -- <yang files...>
gen_pkg() {
  local pkg=$1 schema=$2 config=$3 comp=$4 wrap=$5 opst=$6 ish=$7; shift 7
  local flags=() files=()
  while [ "$1" != "--" ]; do flags+=("$1"); shift; done; shift
  files=("$@")
  mkdir -p "$WORK/gen/$pkg"
  "$WORK/generator.bin" -path="$VERIF/schemas" -output_file="$WORK/gen/$pkg/$pkg.go" -package_name="$pkg" $COMMON_GEN_FLAGS "${flags[@]}" "${files[@]}" >"$WORK/gen/$pkg/gen.log" 2>&1 || { cat "$WORK/gen/$pkg/gen.log" >&2; die "generator failed for $pkg"; }
  cat > "$WORK/gen/$pkg/reg.go" <<EOR
package $pkg

import (
	"reflect"

	"github.com/openconfig/ygot/ygot"
	"github.com/openconfig/ygot/zzverif/core"
)

func init() {
	core.${REGFN:-Register}(&core.Pkg{
		Name: "$pkg", SchemaName: "$schema", Config: "$config",
		Compressed: $comp, Wrapper: $wrap, OpState: $opst, IgnoreShadow: $ish,
		NewRoot:  func() ygot.GoStruct { return &Device{} },
		RootType: reflect.TypeOf(Device{}), BinaryType: reflect.TypeOf(Binary(nil)),
		SchemaFn: Schema, Unmarshal: Unmarshal, EnumMap: ΛEnum, EnumTypesFn: func() map[string][]reflect.Type { return ΛEnumTypes },
	})
}
EOR
}

gen_corpus() {
  build_generator
  local VT="$VERIF/schemas/vt.yang $VERIF/schemas/vt-aug.yang" VOC="$VERIF/schemas/voc.yang" VK="$VERIF/schemas/vk.yang" VV="$VERIF/schemas/vval.yang"
  gen_pkg vtus vt U-simple false false false false -generate_simple_unions -- $VT &
  gen_pkg vtuw vt U-wrapper false true false false -- $VT &
  # vtrs: a second REVISION of module vt (one more enum value in front of typedef color, one more identity sorting
  # first, and the string member of the union typedef mixed is restricted to 4 instead of 8 characters), so that two
  # packages in one process have identically named enum types with different numbering and identically named typedefs
  # with different restrictions:
  # the input for any process-wide cache keyed by a type NAME instead of the type. schemas/rev/ is derived from
  # schemas/vt.yang by the sed below and committed (the reference decoders read it); a stale copy is an error.
  mkdir -p "$WORK/rev"
  sed -e 's/enum RED;/enum AMBER; enum RED;/' -e 's/^  identity ID-A /  identity ID-0 { base BASE; }\n  identity ID-A /' -e 's/type string { length "1..8"; }/type string { length "1..4"; }/' "$VERIF/schemas/vt.yang" > "$WORK/rev/vt.yang"
  cmp -s "$WORK/rev/vt.yang" "$VERIF/schemas/rev/vt.yang" && cmp -s "$VERIF/schemas/vt-aug.yang" "$VERIF/schemas/rev/vt-aug.yang" || die "schemas/rev is stale: re-derive it from schemas/vt.yang (see scripts/lib.sh)"
  grep -q "enum AMBER" "$VERIF/schemas/rev/vt.yang" && grep -q "identity ID-0" "$VERIF/schemas/rev/vt.yang" || die "schemas/rev/vt.yang is not a revision of vt"
  REGFN=RegisterAux gen_pkg vtrs vtrev U-simple false false false false -generate_simple_unions -- "$VERIF/schemas/rev/vt.yang" "$VERIF/schemas/rev/vt-aug.yang" &
  gen_pkg vocus voc U-simple false false false false -generate_simple_unions -- $VOC &
  gen_pkg vocuw voc U-wrapper false true false false -- $VOC &
  gen_pkg voccs voc C-simple true false false false -generate_simple_unions -compress_paths -- $VOC &
  gen_pkg voccw voc C-wrapper true true false false -compress_paths -- $VOC &
  gen_pkg vocco voc C-opstate true false true false -generate_simple_unions -compress_paths -prefer_operational_state -- $VOC &
  gen_pkg voccsh voc C-shadow true false false true -generate_simple_unions -compress_paths -ignore_shadow_schema_paths -- $VOC &
  # auxiliary key corpus (C16): registered with core.RegisterAux, not part of core.Packages()
  REGFN=RegisterAux gen_pkg vkus vk U-simple false false false false -generate_simple_unions -- $VK &
  REGFN=RegisterAux gen_pkg vkuw vk U-wrapper false true false false -- $VK &
  # auxiliary leafref corpus (C30) and defaults corpus (C33): registered with core.RegisterAux as well.
  # vdef-un.yang (union defaults) is only given to the simple-union package: the generator refuses defaults on wrapper unions.
  local VLR="$VERIF/schemas/vlr.yang" VDEF="$VERIF/schemas/vdef.yang" VDEFUN="$VERIF/schemas/vdef-un.yang"
  REGFN=RegisterAux gen_pkg vlrus vlr U-simple false false false false -generate_simple_unions -- $VLR &
  REGFN=RegisterAux gen_pkg vlruw vlr U-wrapper false true false false -- $VLR &
  REGFN=RegisterAux gen_pkg vdus vdef U-simple false false false false -generate_simple_unions -- $VDEF $VDEFUN &
  REGFN=RegisterAux gen_pkg vduw vdef U-wrapper false true false false -- $VDEF &
  # auxiliary validation corpus (C07): min/max-elements, restricted unions, nested choices
  REGFN=RegisterAux gen_pkg vvalus vval U-simple false false false false -generate_simple_unions -- $VV &
  REGFN=RegisterAux gen_pkg vvaluw vval U-wrapper false true false false -- $VV &
  VEN_IMPORTS=""
  ven_wanted && gen_ven
  PS_IMPORTS=""
  ps_wanted && gen_ps
  wait
  ven_wanted && gen_ven_finish
  ps_wanted && gen_ps_finish
  for p in vtus vtuw vtrs vocus vocuw voccs voccw vocco voccsh vkus vkuw vvalus vvaluw vlrus vlruw vdus vduw; do [ -s "$WORK/gen/$p/$p.go" ] || die "corpus package $p was not generated"; done
  {
    echo "package main"; echo; echo "import ("
    for p in vtus vtuw vtrs vocus vocuw voccs voccw vocco voccsh vkus vkuw vvalus vvaluw vlrus vlruw vdus vduw $VEN_IMPORTS $PS_IMPORTS; do echo "	_ \"github.com/openconfig/ygot/zzverif/gen/$p\""; done
    echo ")"
  } > "$WORK/imports_gen.go"
}

# ---- C17: enum / identity naming corpus (schemas ven, venx-*, and the repo's testdata enum modules) ----------
# These packages are registered with core.RegisterAux (harness/core/auxreg.go), i.e. they are NOT part of
# core.Packages() and do not change the state spaces of the tree properties; C17 reads them with core.AuxPackages().
# A generator rejection or (for the venx-* shapes) a Go compile failure is not an infrastructure error: it is
# recorded in the generated package "venfail" (core.RegisterGenOutcome) and judged by C17.
VEN_FLAGNAMES="-typedef_enum_with_defmod -shorten_enum_leaf_names -enum_suffix_for_simple_union_enums -trim_enum_openconfig_prefix"
VEN_RISKY="venxfold venxunset venxdupid"

# The ven corpus costs ~30 generator runs and 3 compile tests, so check.sh only builds it for the properties that
# read it (ID is set by check.sh); devbuild.sh / replay.sh (no ID) always build it. VERIF_VEN=1|0 overrides.
ven_wanted() {
  case "${VERIF_VEN:-auto}" in 1|yes) return 0;; 0|no) return 1;; esac
  case "${ID:-}" in ""|C17|C25|C26) return 0;; esac
  return 1
}

# gen_pkg_soft <same arguments as gen_pkg>: like gen_pkg, but a generator failure is recorded, not fatal.
gen_pkg_soft() {
  local pkg=$1
  mkdir -p "$WORK/genfail"
  echo "$2|$3" > "$WORK/genfail/$pkg.meta"
  if ( REGFN=RegisterAux gen_pkg "$@" ) 2>"$WORK/genfail/$pkg.err"; then
    echo ok > "$WORK/genfail/$pkg.stage"
  else
    echo generator > "$WORK/genfail/$pkg.stage"
    rm -rf "$WORK/gen/$pkg"
  fi
}

ven_flags() { # $1 = 4 bits (defmod shorten suffix trim) -> generator flags
  local bits=$1 i=0 f out=""
  for f in $VEN_FLAGNAMES; do [ "${bits:$i:1}" = 1 ] && out="$out $f"; i=$((i+1)); done
  echo $out
}

gen_ven() { # starts background jobs; the caller waits
  rm -rf "$WORK/genfail"; mkdir -p "$WORK/genfail"
  local VEN="$VERIF/schemas/ven.yang $VERIF/schemas/openconfig-vex.yang" RM="$REPO/testdata/modules" b
  # compressed + simple unions: all 2^4 combinations of the enum naming flags (all four act in this mode)
  for b in 0000 0001 0010 0011 0100 0101 0110 0111 1000 1001 1010 1011 1100 1101 1110 1111; do
    gen_pkg_soft venc$b ven C-simple-$b true false false false -generate_simple_unions -compress_paths $(ven_flags $b) -- $VEN &
  done
  # uncompressed + simple unions: defmod x suffix (shorten / trim only act on compressed schemas)
  for b in 0000 0010 1000 1010; do
    gen_pkg_soft venu$b ven U-simple-$b false false false false -generate_simple_unions $(ven_flags $b) -- $VEN &
  done
  # wrapper unions (the suffix flag needs simple unions): defmod, uncompressed and compressed
  for b in 0000 1000; do
    gen_pkg_soft venw$b ven U-wrapper-$b false true false false $(ven_flags $b) -- $VEN &
    gen_pkg_soft vencw$b ven C-wrapper-$b true true false false -compress_paths $(ven_flags $b) -- $VEN &
  done
  # shapes suspected to yield uncompilable Go: one module each, compile-tested in gen_ven_finish
  gen_pkg_soft venxfold venx-fold U-simple false false false false -generate_simple_unions -- $VERIF/schemas/venx-fold.yang &
  gen_pkg_soft venxunset venx-unset U-simple false false false false -generate_simple_unions -- $VERIF/schemas/venx-unset.yang &
  gen_pkg_soft venxdupid venx-dupid U-simple false false false false -generate_simple_unions -- $VERIF/schemas/venx-dupid.yang $VERIF/schemas/venx-dupid-b.yang &
  # the repo's own enum test modules
  gen_pkg_soft venru venrepo-u U-simple false false false false -generate_simple_unions -path=$RM -- $RM/enum-module.yang $RM/enum-union.yang $RM/enum-list-uncompressed.yang &
  gen_pkg_soft venrc venrepo-c C-simple-1111 true false false false -generate_simple_unions -compress_paths -path=$RM $(ven_flags 1111) -- $RM/openconfig-list-enum-key.yang $RM/openconfig-enumcamelcase.yang $RM/enum-module.yang $RM/enum-union.yang &
}

gen_ven_finish() { # after wait: compile-test the risky packages, write gen/venfail, set VEN_IMPORTS
  local p st
  make_overlay
  for p in $VEN_RISKY; do
    [ "$(cat "$WORK/genfail/$p.stage" 2>/dev/null)" = ok ] || continue
    ( cd "$REPO" && $GO build -tags verif -overlay "$WORK/overlay.json" "./zzverif/gen/$p" ) >"$WORK/genfail/$p.err" 2>&1 || echo compile > "$WORK/genfail/$p.stage" &
  done
  wait
  for p in $VEN_RISKY; do
    if [ "$(cat "$WORK/genfail/$p.stage" 2>/dev/null)" = compile ]; then rm -rf "$WORK/genfail/$p.src"; mv "$WORK/gen/$p" "$WORK/genfail/$p.src"; fi
  done
  mkdir -p "$WORK/gen/venfail"
  python3 - "$WORK" > "$WORK/gen/venfail/venfail.go" <<'EOP'
import glob, json, os, sys
work = sys.argv[1]
print('// Package venfail records how generating / compiling each C17 corpus package went.')
print('package venfail\n\nimport "github.com/openconfig/ygot/zzverif/core"\n\nfunc init() {')
for f in sorted(glob.glob(os.path.join(work, 'genfail', '*.stage'))):
    pkg = os.path.basename(f)[:-6]
    stage = open(f).read().strip()
    schema, config = (open(f[:-6] + '.meta').read().strip().split('|') + [''])[:2]
    detail = ''
    if stage != 'ok':
        try:
            detail = open(f[:-6] + '.err', errors='replace').read()
        except OSError:
            pass
        detail = '\n'.join(l for l in detail.replace(work, '$WORK').splitlines() if l.strip())[-1500:]
    print('\tcore.RegisterGenOutcome(core.GenOutcome{Pkg: %s, Schema: %s, Config: %s, Stage: %s, Detail: %s})' % tuple(json.dumps(x, ensure_ascii=True) for x in (pkg, schema, config, stage, detail)))
print('}')
EOP
  VEN_IMPORTS=venfail
  for st in "$WORK"/genfail/*.stage; do
    p=$(basename "$st" .stage)
    [ "$(cat "$st")" = ok ] && [ -s "$WORK/gen/$p/$p.go" ] && VEN_IMPORTS="$VEN_IMPORTS $p"
  done
}

# ---- C29: path-struct corpus (schemas voc, vps = vps + vps-aug + vps-inl + vps-mix, vpsid = vps-id; -generate_path_structs -compress_paths) ----
# Every path-struct package registers its root constructor with core.RegisterPath (harness/core/pathreg.go) through a
# generated pathreg.go. Two layouts: "same" = GoStructs (registered with core.RegisterAux) and path structs generated
# by ONE generator run into one package; "sep" = path structs only (-generate_structs=false -schema_struct_path=...)
# in a package of their own that imports an already generated GoStruct package. Only built for C29 (ID set by
# check.sh) and for devbuild.sh / replay.sh (no ID); VERIF_PS=1|0 overrides.
ps_wanted() {
  case "${VERIF_PS:-auto}" in 1|yes) return 0;; 0|no) return 1;; esac
  case "${ID:-}" in ""|C29) return 0;; esac
  return 1
}

PS_GOIMPORT=github.com/openconfig/ygot/zzverif/gen
PS_LIST=""

# ps_reg <pkg> <structpkg> <schema> <config> <layout> <suffix> <wildcards> <simplify> <builder> <opstate> <exclstate> <split> <yang files...>
ps_reg() {
  mkdir -p "$WORK/gen/$1"
  local f yf=""
  for f in "${@:13}"; do yf="$yf\"$(basename "$f")\", "; done
  cat > "$WORK/gen/$1/pathreg.go" <<EOR
package $1

import (
	"github.com/openconfig/ygot/ygot"
	"github.com/openconfig/ygot/zzverif/core"
)

func init() {
	core.RegisterPath(&core.PathPkg{
		Name: "$1", StructPkg: "$2", SchemaName: "$3", Config: "$4", Layout: "$5",
		Suffix: "$6", Wildcards: $7, Simplify: $8, BuilderThreshold: $9, OpState: ${10}, ExcludeState: ${11}, SplitByModule: ${12},
		YANGFiles: []string{$yf},
		Root: func(id string) ygot.PathStruct { return DeviceRoot(id) },
	})
}
EOR
}

# ps_same <pkg> <schema> <config> <wrapper> <opstate> <ignoreshadow> <suffix> <wildcards> <simplify> <builder> <exclstate> <flags...> -- <yang files...>
ps_same() {
  local pkg=$1 schema=$2 config=$3 wrap=$4 opst=$5 ish=$6 suffix=$7 wild=$8 simp=$9 builder=${10} excl=${11}; shift 11
  REGFN=RegisterAux gen_pkg "$pkg" "$schema" "$config" true "$wrap" "$opst" "$ish" -compress_paths -generate_path_structs \
    -path_structs_output_file="$WORK/gen/$pkg/${pkg}_path.go" -path_struct_suffix="$suffix" "$@"
  while [ "$1" != "--" ]; do shift; done; shift
  ps_reg "$pkg" "$pkg" "$schema" "$config" same "$suffix" "$wild" "$simp" "$builder" "$opst" "$excl" false "$@"
}

# ps_sep <pkg> <structpkg> <schema> <config> <suffix> <opstate> <split> <flags...> -- <yang files...>
ps_sep() {
  local pkg=$1 spkg=$2 schema=$3 config=$4 suffix=$5 opst=$6 split=$7; shift 7
  local flags=()
  while [ "$1" != "--" ]; do flags+=("$1"); shift; done; shift
  mkdir -p "$WORK/gen/$pkg"
  "$WORK/generator.bin" -path="$VERIF/schemas" -generate_fakeroot -fakeroot_name=device -compress_paths -generate_structs=false \
    -generate_path_structs -package_name="$pkg" -schema_struct_path="$PS_GOIMPORT/$spkg" -path_struct_suffix="$suffix" \
    -path_structs_output_file="$WORK/gen/$pkg/${pkg}_path.go" "${flags[@]}" "$@" >"$WORK/gen/$pkg/gen.log" 2>&1 \
    || { cat "$WORK/gen/$pkg/gen.log" >&2; die "path struct generator failed for $pkg"; }
  ps_reg "$pkg" "$spkg" "$schema" "$config" sep "$suffix" true false 0 "$opst" false "$split" "$@"
}

gen_ps() { # starts background jobs; the caller waits
  local VOC="$VERIF/schemas/voc.yang" VPS2="$VERIF/schemas/vps.yang $VERIF/schemas/vps-aug.yang"
  local VPSO="$VPS2 $VERIF/schemas/vps-mix.yang" # no vps-inl: its inline enumeration key is rejected under -prefer_operational_state
  local VPSB="$VPS2 $VERIF/schemas/vps-inl.yang" # no vps-mix: /mixed/item yields uncompilable code under -list_builder_key_threshold=1
  local VPS="$VPS2 $VERIF/schemas/vps-inl.yang $VERIF/schemas/vps-mix.yang"
  # (split by module uses VPS2: a module package that references no GoStruct type - vps-inl, vps-mix - does not compile)
  # voc: path structs in packages of their own, importing the main corpus GoStruct packages
  ps_sep vocpcs voccs voc P-sep-simple Path false false -- $VOC &
  ps_sep vocpcw voccw voc P-sep-wrapper Path false false -- $VOC &
  ps_sep vocpco vocco voc P-sep-opstate Path true false -prefer_operational_state -- $VOC &
  ps_sep vocpsh voccsh voc P-sep-shadow-suffixPS PS false false -- $VOC &
  # vps: GoStructs + path structs in one package
  #       pkg     schema config              wrap  opst  ish   suffix wild  simp  bld excl
  ps_same vpsps   vps P-simple               false false false Path   true  false 0   false -generate_simple_unions -- $VPS &
  ps_same vpspw   vps P-wrapper              true  false false Path   true  false 0   false -- $VPS &
  ps_same vpspo   vps P-opstate              false true  false Path   true  false 0   false -generate_simple_unions -prefer_operational_state -- $VPSO &
  ps_same vpspsh  vps P-shadow-suffixPx      false false true  Px     true  false 0   false -generate_simple_unions -ignore_shadow_schema_paths -- $VPS &
  ps_same vpspnw  vps P-nowildcards          false false false Path   false false 0   false -generate_simple_unions -generate_wildcard_paths=false -- $VPS &
  ps_same vpspsw  vps P-simplifywildcards    false false false Path   true  true  0   false -generate_simple_unions -simplify_wildcard_paths -- $VPS &
  ps_same vpspb2  vps P-builder2             false false false Path   true  false 2   false -generate_simple_unions -list_builder_key_threshold=2 -- $VPS &
  ps_same vpspb1  vps P-builder1-wrapper     true  false false Path   true  false 1   false -list_builder_key_threshold=1 -- $VPSB &
  ps_same vpsp2   vps P-wrapper-2modules     true  false false Path   true  false 0   false -- $VPS2 &
  ps_same vpspxs  vps P-excludestate         false false false Path   true  false 0   true  -generate_simple_unions -exclude_state -- $VPS &
  # vpsid: top-level names that coincide with the methods of ygot.DeviceRootBase
  ps_same vpspid  vpsid P-rootnames          false false false Path   true  false 0   false -generate_simple_unions -- $VERIF/schemas/vps-id.yang &
  # vps: packages of their own importing vpsps / vpsp2: empty struct suffix; split by module (fake root package
  # vpspmr, module packages vpspm and vpsaugpm land next to it under gen/)
  ps_sep vpspx vpsps vps P-sep-nosuffix "" false false -- $VPS &
  ps_sep vpspmr vpsp2 vps P-sep-splitbymodule Path false true -split_pathstructs_by_module -base_import_path="$PS_GOIMPORT" \
    -path_struct_package_suffix=pm -output_dir="$WORK/gen" -- $VPS2 &
  PS_LIST="vocpcs vocpcw vocpco vocpsh vpsps vpspw vpspo vpspsh vpspnw vpspsw vpspb2 vpspb1 vpsp2 vpspxs vpspid vpspx vpspmr"
}

gen_ps_finish() { # after wait
  local p
  for p in $PS_LIST; do
    [ -s "$WORK/gen/$p/${p}_path.go" ] && [ -s "$WORK/gen/$p/pathreg.go" ] || die "path-struct package $p was not generated"
  done
  for p in vpspm vpsaugpm; do [ -s "$WORK/gen/$p/$p.go" ] || die "split-by-module package $p was not generated"; done
  PS_IMPORTS="$PS_LIST"
}

# make_overlay: writes $WORK/overlay.json mapping harness + generated files into $REPO/zzverif
make_overlay() {
  python3 - "$VERIF" "$REPO" "$WORK" "$@" <<'EOP'
import json, os, sys, glob
verif, repo, work = sys.argv[1:4]
extra = sys.argv[4:]
ov = {}
def add_dir(src, dst):
    for f in sorted(glob.glob(os.path.join(src, '*.go'))):
        ov[os.path.join(repo, dst, os.path.basename(f))] = f
for root, dirs, files in os.walk(os.path.join(verif, 'harness')):
    rel = os.path.relpath(root, os.path.join(verif, 'harness'))
    if rel.startswith('hooks'):
        continue
    add_dir(root, os.path.join('zzverif', rel))
# hooks: files added into real ygot packages (all carry //go:build verif)
hooks = os.path.join(verif, 'harness', 'hooks')
if os.path.isdir(hooks):
    for root, dirs, files in os.walk(hooks):
        rel = os.path.relpath(root, hooks)
        add_dir(root, rel)
gen = os.path.join(work, 'gen')
if os.path.isdir(gen):
    for p in sorted(os.listdir(gen)):
        add_dir(os.path.join(gen, p), os.path.join('zzverif', 'gen', p))
imp = os.path.join(work, 'imports_gen.go')
if os.path.exists(imp):
    ov[os.path.join(repo, 'zzverif', 'cmd', 'vchk', 'imports_gen.go')] = imp
for e in extra:  # dst=src
    d, s = e.split('=', 1)
    ov[d] = s
json.dump({'Replace': ov}, open(os.path.join(work, 'overlay.json'), 'w'), indent=1)
EOP
}

build_vchk() {
  make_overlay "$@"
  (cd "$REPO" && $GO build -tags verif -overlay "$WORK/overlay.json" -o "$WORK/vchk" ./zzverif/cmd/vchk) >"$WORK/build.log" 2>&1 || { cat "$WORK/build.log" >&2; die "cannot build vchk"; }
}
