#!/usr/bin/env python3
"""dev helper: compact summary of replay files of a property: sumviol.py C02 [maxlines]"""
import json,glob,re,collections,sys
pid=sys.argv[1]; mx=int(sys.argv[2]) if len(sys.argv)>2 else 40
c=collections.Counter(); ex={}
for f in glob.glob(__import__('os').environ.get('VERIF','/verif')+f'/replays/{pid}/*.json'):
    d=json.load(open(f)); sig=d['signature']; clause=sig.split(':')[0]
    shape=re.sub(r'\[[^\]]*\]|=[^+]*','',sig[len(clause)+1:])
    k=(clause,shape); c[k]+=1; ex.setdefault(k,(sig,d['detail']))
for i,(k,v) in enumerate(sorted(c.items())):
    if i>=mx: print('...',len(c)-mx,'more classes'); break
    print(v,k[0],k[1],'|',ex[k][0][:100],'|',ex[k][1][:260].replace('\n',' '))
