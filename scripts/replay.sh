#!/bin/bash
# usage: scripts/replay.sh <replay file>  -- re-executes one recorded violation, no explorer involved.
. "$(dirname "$0")/lib.sh"
mkwork replay
gen_corpus
build_vchk
"$WORK/vchk" -replay "$1" -verif "$VERIF" -repo "$REPO"
