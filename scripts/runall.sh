#!/bin/bash
# dev helper: run every claimed check (quick by default) and print one summary line each.
TIER=${1:-quick}; shift
V=$(cd "$(dirname "$0")/.." && pwd)
IDS=${@:-$(python3 -c "import json;print(' '.join(c['property_id'] for c in json.load(open('$V/MANIFEST.json'))['checks']))")}
for id in $IDS; do
  s=$(date +%s)
  CMD=$(python3 -c "import json;m=json.load(open('$V/MANIFEST.json'));c=[c for c in m['checks'] if c['property_id']=='$id'][0];print(c['quick_cmd'] if '$TIER'=='quick' else c['thorough_cmd'])")
  out=$(cd "$V" && $CMD 2>&1); rc=$?
  e=$(date +%s)
  echo "$id rc=$rc t=$((e-s))s $(echo "$out" | grep -c '^VIOLATION') viol | $(echo "$out" | grep '^SUMMARY' | cut -c1-200)"
  echo "$out" | grep '^VIOLATION' | head -3 | cut -c1-300
done
