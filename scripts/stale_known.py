#!/usr/bin/env python3
# dev helper: lists known: entries of known_findings.txt that no signature in the current evidence files matches
import json, glob, re, os
V = os.path.dirname(os.path.dirname(os.path.abspath(__file__)))
obs = {}
for f in sorted(glob.glob(V + '/evidence/C*.json')):
    e = json.load(open(f)); obs[e['property_id']] = (e['tier'], e['coverage'].get('known_findings_observed') or [])
for n, l in enumerate(open(V + '/known_findings.txt'), 1):
    if not l.startswith('known:'):
        continue
    m = re.match(r'known: property=(C\d+) (sig|sigre)=(.*?) :: ', l); id, k, p = m.groups()
    tier, o = obs.get(id, ('-', []))
    sigs = [x if isinstance(x, str) else x.get('sig', '') for x in o]
    hit = [s for s in sigs if (s == p if k == 'sig' else re.fullmatch(p, s))]
    if not hit:
        print("UNOBSERVED line %d %s (%s evidence) %s=%s" % (n, id, tier, k, p[:110]))
