#!/usr/bin/env python3
"""Regenerates /verif/MANIFEST.json from the table below. Run after adding a check."""
import json, os
V = os.path.dirname(os.path.dirname(os.path.abspath(__file__)))
TREE_NOTE = ("trusted base: Go reflect, the harness builder/observer (reflection over struct tags; ordered maps filled through "
             "generated Append, unions through generated To_<Union>), goyang as the source of schema facts, the corpus schemas "
             "under /verif/schemas; values outside the per-type alphabets and trees larger than the bound are not covered")
CHECKS = {
 "C01": dict(engine="treemc", cat="model_checking", sec="5/C01",
   text="Explicit-state search: every tree of <=k populated nodes (k=2 quick, 3 thorough) over the derived atom alphabet of both corpus schemas under all 8 code-generation configurations is built on a fresh real GoStruct, rendered (Marshal7951 with nil/AppendModuleName/PrependModuleNameIdentityref/PreferShadowPath, EmitJSON), unmarshalled into an empty root, observed and re-rendered; the law (same Model, byte-identical JSON) is checked in every state. Bounded-exhaustive rather than sampled, which is the right level for an input-quantified round-trip law.",
   technique="explicit-state BFS over tree-building operation sequences on the real implementation, round-trip law in every state", note=TREE_NOTE),
 "C02": dict(engine="treemc", cat="model_checking", sec="5/C02",
   text="Explicit-state search over the same tree space as C01 (k=2 quick, 3 thorough, all 8 configurations): in every state the tree is rendered with TogNMINotifications (PathElem) at the root and at every container/list-entry sub-root with PathElemPrefix=path(node), the notifications are applied to an empty root with UnmarshalNotifications, and leaves, leaf-lists and ordered-list order are compared with the reference Model. A dedicated sub-check drives the exposed ordered list.",
   technique="explicit-state BFS over tree-building sequences on the real implementation, gNMI round-trip law in every state and at every prefix", note=TREE_NOTE),
 "C03": dict(engine="treemc", cat="model_checking", sec="5/C03",
   text="Ordered pairs (a,b) of explicit-state search states: all pairs of k<=1 states over the full alphabet and all pairs of k<=2 states over the ordered-list atoms (quick: 4 packages covering simple/wrapper x compressed/uncompressed; thorough: all 8 plus k<=2 x k<=1), x {Diff, DiffWithAtomic, IgnoreAdditions, MapToSinglePath}. Every update and delete is judged directly against the two reference Models (soundness, minimality, completeness, IgnoreAdditions), the notifications are applied to a twin of a and compared with b (order included for DiffWithAtomic), and 3-step histories apply successive diffs to a running copy.",
   technique="explicit-state enumeration of state pairs and short histories on the real implementation against a path-to-value reference model", note=TREE_NOTE),
 "C04": dict(engine="treemc", cat="model_checking", sec="5/C04",
   text="Explicit-state search (k=2 quick, 3 thorough, all 8 configurations, including empty non-nil maps / ordered maps / leaf-lists): every state is deep-copied and checked for Model equality, for shared mutable memory by an exhaustive pointer-graph walk (pointees, maps, slice backing arrays reachable from both objects), and by overwriting everything reachable from the copy (then from the original) and comparing the other side with a pristine twin. MergeStructs gets the same walk against both inputs on all ordered pairs of k<=1 states x 4 option sets.",
   technique="explicit-state BFS over tree-building sequences; aliasing decided by pointer-graph intersection plus in-place mutation against a twin", note=TREE_NOTE),
 "C10": dict(engine="treemc", cat="model_checking", sec="5/C10",
   text="Transition oracle: from every explicit-state search state (k<=1 over the full alphabet in all 8 configurations, k<=2 focused in two of them; thorough k<=2 full) every leaf / leaf-list atom (every leaf type and domain value, every list key type, present and absent entries) is written with SetNode(InitMissingElements) as scalar TypedValue and as JSON_IETF on a fresh real tree. On success the whole observed Model must equal the reference transition (the builder applied to the same state: the leaf plus key leaves of entries created along the path, nothing else) and GetNode must return exactly one node holding the value; a failed set must leave the tree unchanged. Histories of 3 successive sets from the empty root are compared step by step.",
   technique="explicit-state transition exploration (state x set operation) on the real implementation against the reference builder, plus short set histories", note=TREE_NOTE),
 "C12": dict(engine="treemc", cat="model_checking", sec="5/C12",
   text="Transition oracle on explicit-state search states (k<=1 full alphabet, k<=2 focused alphabet; thorough k<=3/full): DeleteNode is executed on a fresh real tree for every schema node path instantiated with domain keys (containers, presence containers, whole lists, partial keys, present and absent list entries, ordered-list entries, leaves, leaf-lists, key leaves) and compared with reference deletion on the path-to-value Model: data below the path gone, every leaf / entry / presence container outside unchanged, entries and presence containers on the way pruned only when empty, GetNode finds nothing, second call is a no-op.",
   technique="explicit-state transition exploration (state x delete-path) on the real implementation against a reference deletion on the model", note=TREE_NOTE),
 "C14": dict(engine="treemc", cat="model_checking", sec="5/C14",
   text="Explicit-state search (k=2 quick, 3 thorough, all 8 configurations): every state is pruned as built and after BuildEmptyTree on the root and on every struct in the tree (incl. keyed, unkeyed and ordered list entries); oracle: returns normally, data Model unchanged, no container without set descendants left anywhere, second call changes nothing.",
   technique="explicit-state BFS over tree-building sequences; invariant + idempotence law evaluated in every state", note=TREE_NOTE),
 "C08": dict(engine="valmc", cat="exploration", sec="5/C08",
   text="Small-scope exhaustive enumeration: every 1-2 element path over 3 names and 0-2 keys where one key takes every string of length 1..3 (thorough 1..4) over {a / [ ] = \\ space . e-acute} and the others a 12-value adversarial set; PathToString->StringToStructuredPath and the legacy string-slice form must return the path, and every produced string is hashed to decide injectivity directly.",
   technique="exhaustive enumeration of a bounded path alphabet against round-trip and injectivity laws on the real functions", note="values longer than the bound or outside the 9-character alphabet are not covered; proto.Equal is trusted"),
}

VAL_NOTE = "values, strings and shapes outside the stated alphabets/bounds are not covered; trusted base: the independent reference functions under harness/core (ref*.go), goyang as source of schema facts, encoding/json, math/big"
CHECKS.update({
 "C06": dict(engine="valmc", cat="exploration", sec="5/C06",
   text="Bounded-exhaustive restriction family: all range expressions with <=2 parts over a 7-value bound set (incl. min/max) for the 8 integer types and decimal64 (fraction-digits 1,3,18), all length expressions with <=2 parts for string (characters) and binary (bytes), all pattern ASTs of size <=4 over {a,b,.,[ab],[^a],\\d,e-acute} x {concat,|,*,+,?,group} bare and wrapped in ^/$, two-pattern conjunctions, posix-pattern forms - each compiled by goyang - against complete value domains (all int8/uint8/int16/uint16 values; all strings of <=4 symbols with 1-4 byte runes). ytypes.Validate*Restrictions must accept exactly what the reference (math/big arithmetic; an independent Brzozowski-derivative regexp matcher cross-checked by a second evaluator) accepts, and no supported pattern may sanitise into something uncompilable or rejecting everything.",
   technique="exhaustive small-scope enumeration of restrictions x values on the real validators, differential against independent reference arithmetic and a reference regexp matcher", note=VAL_NOTE),
 "C16": dict(engine="valmc", cat="exploration", sec="5/C16",
   text="Every keyed list (unordered and ordered) of the 8 corpus packages plus a dedicated key corpus (schemas/vk.yang: all integer widths, decimal64 with several fraction-digits, boolean, enum, identityref, union, leafref, multi-key, ordered variants) x every value of a per-type key domain (complete for boolean/enum/identity, boundaries for integers, strings with path metacharacters and non-ASCII, signed/large decimals, each union member): the key strings ygot produces (TogNMINotifications, Diff, PathKeyFromStruct, KeyValueAsString) are fed to GetNode, DeleteNode and SetNode on trees that also hold the neighbouring keys; results compared through the reference observer.",
   technique="exhaustive enumeration list x key value x key-string source x operation on the real implementation, round-trip law through the reference observer", note=VAL_NOTE),
 "C17": dict(engine="valmc", cat="exploration", sec="5/C17",
   text="Every generated enumeration / identityref type (528 types, 1229 positions: leaf, leaf-list, union, list key) of 34 packages - the 8 corpus packages plus an adversarial enum corpus (names with . - + : * digits, UNSET, negative/large values, same identity name in two modules, typedef reuse) generated under all 16 enum-naming flag combinations - x every defined value, zero and undefined representatives: names unique, render->parse (bare and module-prefixed, JSON and gNMI, repeated because the decoder ranges over a Go map) returns the value, zero never rendered, undefined values give errors; names and counts compared with a direct goyang compile.",
   technique="exhaustive enumeration over all enum types x values x positions x naming-flag configurations on the real encoders/decoders, round-trip law plus comparison with goyang", note=VAL_NOTE),
 "C18": dict(engine="valmc", cat="exploration", sec="5/C18",
   text="Full cartesian product of all 28 leaf / leaf-list types under /vt:top x {simple, wrapper unions} x 164 JSON texts (285 thorough: every JSON kind, integer boundaries +-1 and +-0.5 as number and string, exponent/hex/NaN/Inf/sign/whitespace spellings, base64 variants, enum names with and without (foreign) module prefixes, [null] variants) through Unmarshal and SetNode(json_ietf) and 176 TypedValue messages (228 thorough) through SetNode with and without TolerateJSONInconsistencies. Each outcome must lie in the allowed set of an independent three-valued reference decoder ({reject}, {v}, or {reject,v} for lenient lexical forms) and every accepted value must re-render to the same value.",
   technique="exhaustive cartesian enumeration (leaf type x input atom x entry point) on the real decoders against an independent three-valued reference decoder plus a re-render law", note=VAL_NOTE),
})

SEQ_NOTE = "trusted base: the reflection driver for generated helpers (core/seqlist.go), the slice-of-pairs / map reference models, reflect; histories longer than the depth bound, key domains beyond 3 keys and lists nested in list entries are not covered"
CHECKS.update({
 "C15": dict(engine="seqmc", cat="model_checking", sec="5/C15",
   text="Breadth-first search over API call histories of the generated ordered maps (12 ordered lists incl. single-key, two-key and the OpenConfig rule list, in simple/wrapper/compressed packages): alphabet Append, Append(nil), Append(nil-key entry), AppendNew, Delete, Get, Keys, Values, Len and the parent's AppendNew/Append/Get/Delete helpers over a 3-key domain from nil and empty receivers, depth 5 (thorough 6); every successor is obtained by replaying the history on a fresh real object, states deduplicated by canonical state. After every call the map must equal an insertion-ordered reference (slice of key/identity pairs); rejected and read-only calls leave a reflection dump (unexported fields included) unchanged; Keys/Values return copies; in every reached state the order survives JSON, gNMI and DeepCopy. All undeduplicated histories of length 3 (4) are executed as a cross-check.",
   technique="explicit-state BFS over call histories of the real generated code against a reference model, every trace executed on the implementation", note=SEQ_NOTE),
 "C34": dict(engine="seqmc", cat="model_checking", sec="5/C34",
   text="Breadth-first search over call histories of the generated keyed-list helpers New/GetOrCreate/Get/Append/Append(nil-key)/Delete/Rename for one list per Go key type (string, int64, uint64, decimal, bool, enum, identityref, union, leafref, two-key; 22 lists in simple/wrapper/compressed packages) over a 3-key domain, depth 5 (thorough 6), replayed on fresh real objects and compared after every call with a reference map from key tuple to entry identity: key leaves equal the map key in every state, rejected calls change nothing, GetOrCreate is idempotent, Get never creates, Rename moves the same object and rewrites its key leaves.",
   technique="explicit-state BFS over call histories of the real generated code against a reference map, every trace executed on the implementation", note=SEQ_NOTE),
})

CHECKS.update({
 "C09": dict(engine="valmc", cat="exploration", sec="5/C09",
   text="All ordered pairs of paths over a bounded alphabet (list x with keys k1,k2,k3 each absent/*/v1/v2, container y, up to 2 elements, 3x3 origins: 4423 paths, 7.1e8 judgements in quick; thorough adds 3-element spaces) are compared by ComparePaths, each pair several times with key maps built in different insertion orders (the implementation ranges over Go maps: differing answers are their own violation clause), against the true set relation computed by a reference denotation (bitset of concrete paths over a finite universe, keys in {v1,v2,v3}). The swap law and PathMatchesQuery, PathMatchesPrefix, PathMatchesPathElemPrefix, TrimGNMIPathElemPrefix, JoinPaths, FindPathElemPrefix are checked against the same tables.",
   technique="exhaustive enumeration of all path pairs over a bounded alphabet on the real functions against a set-denotation reference", note=VAL_NOTE),
 "C24": dict(engine="valmc", cat="exploration", sec="5/C24",
   text="Messages of the repository's annotated test protos (exschemapath, gribi_aft) are built by protoreflect from the descriptors: the empty message, every single supported field set at any position through containers and keyed-list entries, and all compatible pairs (thorough: triples) over small value domains incl. zero values, MaxUint64 and strings with path metacharacters (47,714 cases quick; 2.98M thorough); each case is run repeatedly because protomap ranges over Go maps. PathsFromProto must succeed, leave m unchanged and emit exactly the keyed data-tree paths predicted from the yext.schemapath annotations; ProtoFromPaths into a new message must succeed and be proto.Equal to m.",
   technique="exhaustive enumeration of messages with <=2 (3) populated fields over the annotated descriptors, round-trip law on the real functions", note=VAL_NOTE),
})

CHECKS.update({
 "C11": dict(engine="treemc", cat="model_checking", sec="5/C11",
   text="Every explicit-state search state (k<=1 full alphabet + k<=2 focused, all 8 configurations; thorough k<=2 full) x every read-only / encoding call of the statement with every option value: Validate, Marshal7951 / ConstructIETFJSON / EmitJSON x 4 RFC7951JSONConfig settings, EncodeTypedValue of the root, every sub-struct and every leaf value x JSON/JSON_IETF x caller-supplied config, TogNMINotifications with a caller-owned prefix, DeepCopy, GetNode on every node path x 4 options, Unmarshal of a decoded JSON tree, SetNode / UnmarshalSetRequest / UnmarshalNotifications (incl. TolerateJSONInconsistencies, atomic notifications and slices with spare capacity), gnmidiff with and without schema; Diff / DiffWithAtomic / MergeStructs on all ordered pairs of k<=1 states. Every argument must be unchanged afterwards: trees against a pristine twin (reflection dump incl. unexported fields), protobuf messages against clones plus sentinel elements beyond slice lengths, option structs, decoded JSON trees, the schema root.",
   technique="explicit-state enumeration of (state x API call x option) on the real implementation with an argument-unchanged frame law against pristine twins", note=TREE_NOTE),
})

CHECKS.update({
 "C05": dict(engine="treemc", cat="model_checking", sec="5/C05",
   text="Ordered pairs (a,b) of explicit-state search states: all pairs of k<=1 states over the full alphabet (plus extra overlapping leaf-list values), all pairs of k<=2 states over the ordered-list / unkeyed atoms and over the leaf-list atoms (thorough: k<=2 x k<=1 focused, all 8 packages) x {none, MergeOverwriteExistingFields, MergeEmptyMaps, MergeStructInto}. Each merge is judged against a reference merge on the path-to-value Model: success exactly when the reference accepts (leaf conflicts, overlapping-but-unequal leaf-lists / unkeyed lists, ordered lists neither disjoint nor same-order subset), result = union, no duplicate list keys, inputs equal their pristine twins, commutativity where both orders are accepted, overwrite never fails on leaf conflicts and b wins.",
   technique="explicit-state enumeration of state pairs on the real implementation against a reference merge on the model", note=TREE_NOTE),
 "C20": dict(engine="valmc", cat="exploration", sec="5/C20",
   text="Deviation-bounded exhaustive malformation (no sampling): starting from valid inputs derived from explored k<=2 trees of three packages (their Marshal7951 documents, the gNMI paths of all nodes, TypedValues, SetRequests / Notifications) ALL inputs with <=1 deviation (thorough <=2) are generated - 13 JSON shape atoms at every member/element position, 17 path deviations per element/key, 52 TypedValue atoms, ~25 request-level deviations - plus every string of length <=6 (7) over {a / [ ] = \\ space} for the path parsers, and fed to Unmarshal, SetNode/GetNode/DeleteNode, UnmarshalSetRequest/UnmarshalNotifications, StringToPath*, DiffSetRequest/DiffSetRequestToNotifications (with and without schema). Oracle: the call returns; a recovered panic is a violation keyed by target and innermost ygot frame.",
   technique="deviation-bounded exhaustive enumeration of malformed inputs around valid ones, executed on the real entry points with a returns-normally oracle", note=VAL_NOTE+"; a hang or fatal runtime error would abort the run rather than be reported"),
 "C22": dict(engine="valmc", cat="exploration", sec="5/C22",
   text="SetRequests derived from every explored state (k<=2) of the OpenConfig-style compressed package plus adversarial interface names, in every request form (per-leaf typed updates, per-leaf JSON scalars, JSON container updates at every grouping depth, replace-with-JSON, delete+updates) and under every intent-preserving rewrite (every prefix/path split, permutations of <=3 updates, leaf replace vs update, each update duplicated), with and without schema. Laws: DiffSetRequest(a,a) is empty; swapping arguments swaps missing/extra and A/B and keeps the common entries; whenever DiffSetRequest(a, r(a)) returns no error its diff is empty; no call panics.",
   technique="exhaustive enumeration of requests and their intent-preserving rewrites over explored states, algebraic laws on the real gnmidiff functions", note=VAL_NOTE),
 "C23": dict(engine="valmc", cat="exploration", sec="5/C23",
   text="For every request of the C22 base set, notifications carrying exactly the leaves the intent writes (all layouts: 1-2 notifications, all prefix splits) must give an empty DiffSetRequestToNotifications; then every single-leaf edit (remove one leaf, change one value, add one leaf under a deleted/replaced subtree) must make that leaf and only that leaf appear as missing / mismatched / extra respectively.",
   technique="exhaustive enumeration of single-leaf edits of exact notification sets over explored states, exact-classification oracle on the real function", note=VAL_NOTE),
})

CHECKS.update({
 "C21": dict(engine="sched", cat="model_checking", sec="5/C21",
   text="Hand-written cooperative scheduler + depth-first search with iterative preemption bounding over ALL interleavings (bound 2; thorough: 3 threads bound 2 and 2 threads bound 4) of every multiset of 2 (3) thread bodies from a 10-operation alphabet: 7 read-only operations on one shared tree (Validate, Marshal7951, TogNMINotifications, GetNode, Diff, DeepCopy, EncodeTypedValue with a shared config) and 3 writers into their own trees sharing one schema and one set of input messages (Unmarshal, SetNode with JSON tolerance, UnmarshalSetRequest), in simple- and wrapper-union packages. ytypes/string_type.go is compiled from a copy derived at check time with its sync import rewritten to a shim, so every RLock/RUnlock/Lock/Unlock of the regexp cache is a scheduling point (cache reset to cold per execution). Per execution: every result equals the sequential result; the shared tree, messages and config are never written (checked at every scheduling point); the shared schema graph hash is unchanged; no deadlock; prefix replay divergence is a hard error. A separate free-running -race pass over the same bodies (pairs and triples, GOMAXPROCS 2/4/16) is complementary sampling evidence.",
   technique="stateless model checking: controlled scheduler with DFS over interleavings (iterative preemption bounding) of the real code at its synchronisation points, invariant on shared objects at every point", note="scheduling points exist only at lock operations and operation boundaries, so unsynchronised plain-memory conflicts are covered by the never-written invariant and the sampled race-detector pass, not by the search; executions with more preemptions than the bound are not explored; trusted base: harness/sched, reflect-based snapshots"),
})

CHECKS.update({
 "C13": dict(engine="treemc", cat="model_checking", sec="5/C13",
   text="From every explicit-state search state (k<=1 full alphabet on three packages in quick; k<=2 and all 8 in thorough) UnmarshalSetRequest / UnmarshalNotifications are driven on a fresh real tree with every single-operation request over the full operation alphabet (delete / replace / update at root, containers, presence containers, list entries, ordered-list entries, whole lists, partial keys, leaves, leaf-lists; payloads scalar TypedValue, JSON_IETF scalar, JSON_IETF sub-trees with <=2 atoms), every prefix split, all 2-operation requests over a focused alphabet (same path twice, child then ancestor, ancestor then child), histories of two requests, and atomic notifications at ordered-list and container prefixes. After every request the observed Model is compared with reference gNMI Set semantics on the path-to-value Model (prefix join; deletes; each replace = delete subtree then write payload; each update = merge).",
   technique="explicit-state transition exploration (state x SetRequest) on the real implementation against reference gNMI Set semantics on the model", note=TREE_NOTE),
})

CHECKS.update({
 "C07": dict(engine="treemc", cat="model_checking", sec="5/C07",
   text="All explicit-state search states (k<=2 quick on six packages incl. a validation corpus with min/max-elements, restricted unions, multi-pattern strings and nested choices; k<=3 thorough on all) are schema-valid by construction and must validate; and ALL single-fault mutations of them built by reflection (each leaf replaced by each out-of-space value of its type: range edge +-1, over-long / pattern-violating string, over-long binary, undefined enum/identity integer, union value fitting no member; map key != key leaf incl. nil key leaves and each key of multi-key lists; duplicate value in each config leaf-list; lists / leaf-lists beyond max-elements or below min-elements; two cases of a choice) must be rejected, legal duplicates in config-false leaf-lists accepted. Oracle: Validate()==nil exactly when an independent reference validator over the Model and the goyang schema accepts (math/big ranges, reference regexp matcher, membership, key consistency, uniqueness, element counts, one case per choice).",
   technique="explicit-state BFS plus exhaustive single-fault mutation of every state, differential against an independent reference validator", note=TREE_NOTE),
 "C19": dict(engine="treemc", cat="model_checking", sec="5/C19",
   text="Every explicit-state search state (k<=2 quick, 3 thorough; all 8 configurations) x 5 RFC7951JSONConfig settings (nil, AppendModuleName, PrependModuleNameIdentityref, two RewriteModuleNames maps) x {Marshal7951, ConstructIETFJSON, EmitJSON}: the emitted document must equal, structurally and lexically, the document produced by an independent renderer (harness/core/refjson.go) from the reference Model and the harness's own goyang compile of the YANG sources (module names from Entry.Namespace, identity modules from the identity statements - nothing from ygot's struct tags): numbers for <=32-bit integers, RFC 7950 lexical strings for 64-bit integers and decimal64, base64, [null], names, module prefixes exactly where the module changes. Plus a per-type value sweep (decimal64 +-d*10^e over e in -18..18, int64/uint64 boundaries).",
   technique="explicit-state BFS over tree-building sequences; differential against an independent RFC 7951 renderer in every state and configuration", note=TREE_NOTE),
 "C31": dict(engine="treemc", cat="model_checking", sec="5/C31",
   text="Pairs (existing tree t1, JSON document rendered by the independent refjson from the model of t2, with bare and module-prefixed names, optionally plus one unknown member at each object position) over all ordered pairs of k<=1 states on three packages and k<=2 x k<=2 over ordered-list atoms (thorough: more), with and without IgnoreExtraFields: the document is unmarshalled into a fresh copy of t1 and the observed Model compared with the reference merge (unmentioned values unchanged, mentioned leaves overwritten, mentioned leaf-lists replaced wholesale, list entries merged by key, no duplicate keys); an unknown member must cause an error without the option and be skipped with it while everything else is applied identically.",
   technique="explicit-state enumeration of (tree, document) pairs on the real Unmarshal against a reference merge on the model", note=TREE_NOTE),
})

CHECKS.update({
 "C29": dict(engine="treemc", cat="model_checking", sec="5/C29",
   text="The whole accessor tree of 17 generated path-struct packages (OpenConfig-style corpus voc plus a path corpus vps with string/uint32/int64/uint64/enum/identityref/union/boolean/decimal64 keys, 2- and 3-key lists, nested and ordered lists, config/state twins, list-only containers, choice/case, an augment, name collisions; variants: simple/wrapper unions, prefer_operational_state, ignore_shadow_schema_paths, path_struct_suffix, generate_wildcard_paths=false, simplify_wildcard_paths, list_builder_key_threshold, exclude_state, split_pathstructs_by_module) is explored breadth-first by reflection from the device root: every accessor with every tuple of the per-type key domains and every wildcard / partial-wildcard / builder variant (183,634 path nodes quick; 669,591 thorough). ygot.ResolvePath must succeed; element names must equal the data-tree path obtained independently from the GoStruct field tags and name a node of the right kind in the harness's own goyang compile; supplied keys must denote the supplied values; wildcarded keys must be '*'; the method set of each path struct is exactly the expected API; every schema node kept by compression is reached by exactly one non-wildcard chain.",
   technique="explicit-state BFS over the generated accessor tree (states = path nodes, transitions = accessor calls) with a path-resolution oracle against struct tags and goyang", note="trusted base: reflection driver, goyang, core.KeyMatches; schemas and key values outside the corpus are not covered"),
})

CHECKS.update({
 "C28": dict(engine="valmc", cat="exploration", sec="5/C28",
   text="protogen runs in-process (twice per case) on three corpora, a bounded-exhaustive family of 85 feature atoms (all singles and all 3,570 pairs) under up to 48 option configurations (compress, nested messages, schema-path / enum-name annotations, package variations), and 486 adversarial schemas whose identifiers were found by exhaustive enumeration with the real (overlay-exported) fieldTag: all 1.35M names of length <=4 over [a-z0-9-] plus an FNV-1 walk confirmed with fieldTag - colliding sibling pairs, names hashing to 0, into 1..1000 and into 19000..19999, name-mangling sets, keywords. Every emitted file set is parsed by an independent proto3 parser (harness/core/protoparse.go, self-tested on 38 broken files and all 56 golden files): distinct field names and numbers in 1..2^29-1 outside 19000-19999, distinct enum names/values with first value 0, no silently dropped enum value, tags equal across generations and unchanged when unrelated siblings / modules are added. A generator error is acceptable.",
   technique="bounded-exhaustive enumeration of schemas x protogen options plus exhaustive identifier hashing for adversarial names; well-formedness decided by an independent proto3 parser on every output", note=VAL_NOTE),
 "C30": dict(engine="treemc", cat="model_checking", sec="5/C30",
   text="Explicit-state search (k<=3; thorough k<=4 on the predicate-bearing part) over an alphabet derived from the harness's own goyang compile: every leafref leaf, its targets, predicate selector leaves and the lists on the way, for vt, voc (6 configurations) and a leafref corpus (absolute leafref, [k=current()/../x] predicate, leafref to a leaf-list, leaf-list of leafrefs, leafref to a union): 420,844 states. Root Validate() must report a leafref error exactly when an independent evaluator of the leafref XPath subset on the Model finds a leafref value outside the node set its path selects, and never with IgnoreMissingData.",
   technique="explicit-state BFS over tree-building sequences; differential against an independent leafref path evaluator in every state", note=TREE_NOTE),
 "C32": dict(engine="treemc", cat="model_checking", sec="5/C32",
   text="Every explicit-state search state (k<=2 on six uncompressed / compressed / prefer-operational-state / ignore-shadow packages; thorough k<=3) is handed to PruneConfigFalse: afterwards no leaf, leaf-list, list entry or presence container whose schema node is config false in the harness's own goyang compile remains - except compressed state leaves that have a config-true config/ twin (the documented applied-configuration exception) - every config-true value is unchanged, and a second call changes nothing. The Config flags the atoms read from the embedded schema are cross-checked against goyang.",
   technique="explicit-state BFS over tree-building sequences; postcondition + frame + idempotence judged against an independent goyang compile in every state", note=TREE_NOTE),
 "C33": dict(engine="treemc", cat="model_checking", sec="5/C33",
   text="Every explicit-state search state (k<=2; thorough k<=3 focused) of the 8 corpus packages and a defaults corpus (defaults of every integer width, decimal64, string, boolean, enumeration, identityref, unions, binary, YANG 1.1 leaf-list defaults, typedef defaults, defaults in list entries, choice cases and presence / plain containers) calls the generated PopulateDefaults: every previously unset defaulted leaf inside existing or instantiated containers must hold the default computed from the harness's own goyang compile, every previously set leaf is unchanged, and a tree that validated before still validates.",
   technique="explicit-state BFS over tree-building sequences; postcondition + frame + validity preservation judged against an independent goyang compile in every state", note=TREE_NOTE),
})

CHECKS.update({
 "C25": dict(engine="genmc", cat="model_checking", sec="5/C25", quick="scripts/check_c25.sh quick", thorough="scripts/check_c25.sh thorough", replay="scripts/replay_c25.sh {path}",
   text="Model checking of the environment answer 'Go map iteration order' inside the generators: at check time every ygot package in the dependency closure of ./generator and ./proto_generator (thorough: also goyang) is copied through an AST-guided rewrite that wraps every range operand (and reflect MapKeys) with a seam; the real generator mains then run as separate processes on 28 (thorough 109) command-line configurations (Go structs with compress/uncompressed, simple/wrapper unions, split files, path structs, protobuf output; corpus + repository schemas). Explorer: all-ascending baseline, all-descending, all-rotated, and for EVERY map-range site executed with >=2 entries a run with only that site descending and one rotated by 1 (1163 / 6951 states). Every output must be byte-identical to the baseline, and baseline and probe build must equal the uninstrumented generator's output (conformance of the instrumented build). Two plain processes of the real binary are also compared (sampling, reported separately).",
   technique="exhaustive single-site deviation of every executed map-iteration order (controlled environment nondeterminism) on the real generator, byte-identity oracle", note="the seam controls map iteration only; other sources were scanned for statically (reflect.MapRange in ygot/render.go, two selects in goyang's lexer: listed in the evidence); generator paths the corpus does not drive through a map with >=2 entries are listed in the evidence; multi-site interactions beyond all-descending / all-rotated are not explored"),
})
ALL = [json.loads(l)["id"] for l in open(os.path.join(V, "properties.jsonl"))]
NA = {
}
checks = []
for pid in ALL:
    if pid not in CHECKS: continue
    c = CHECKS[pid]
    checks.append({
        "property_id": pid,
        "quick_cmd": c.get("quick", f"scripts/check.sh {pid} quick"),
        "thorough_cmd": c.get("thorough", f"scripts/check.sh {pid} thorough"),
        "evidence_file": f"/verif/evidence/{pid}.json",
        "replay_cmd_template": c.get("replay", "scripts/replay.sh {path}"),
        "engine": c["engine"],
        "level_claimed": {"category": c["cat"], "text": c["text"], "design_ref": "DESIGN.md section " + c["sec"]},
        "level_note": c["note"],
        "technique": c["technique"],
    })
na = []
for pid in ALL:
    if pid in CHECKS: continue
    na.append({"property_id": pid, "reason": NA.get(pid, "check designed (DESIGN.md section 5) but not built yet in this round; nothing is claimed for it")})
m = {
 "version": 1,
 "setup_cmd": "scripts/setup.sh",
 "hooks": {
   "guard": "verif",
   "enable": "go build -tags verif -overlay <work>/overlay.json ./zzverif/cmd/vchk inside /repo: harness, freshly generated corpus packages and //go:build verif export files are overlaid as virtual files; /repo itself carries no hook code",
   "baseline_off_cmd": "scripts/baseline_off.sh",
   "source_commits": [],
   "add_only": True,
 },
 "engines": [
   {"name": "treemc", "path": "harness/core/treemc.go", "serves_properties": [p for p in ALL if p in CHECKS and CHECKS[p]["engine"] == "treemc"], "kind_free_text": "explicit-state breadth-first search over tree-building atom sequences executed on fresh real GoStructs, states deduplicated by the observed reference Model"},
   {"name": "valmc", "path": "harness/core/valmc.go", "serves_properties": [p for p in ALL if p in CHECKS and CHECKS[p]["engine"] == "valmc"], "kind_free_text": "exhaustive cartesian enumeration of small-scope input spaces against reference functions"},
   {"name": "seqmc", "path": "harness/core/seqmc.go", "serves_properties": [p for p in ALL if p in CHECKS and CHECKS[p]["engine"] == "seqmc"], "kind_free_text": "breadth-first search over API call histories of generated helper code against a boring reference model"},
   {"name": "sched", "path": "harness/sched", "serves_properties": [p for p in ALL if p in CHECKS and CHECKS[p]["engine"] == "sched"], "kind_free_text": "cooperative scheduler + DFS over interleavings with iterative preemption bounding"},
   {"name": "genmc", "path": "harness/genmc", "serves_properties": [p for p in ALL if p in CHECKS and CHECKS[p]["engine"] == "genmc"], "kind_free_text": "bounded-exhaustive enumeration of YANG schemas x generator flag combinations"},
 ],
 "checks": checks,
 "not_applicable": na,
 "notes": "All checks rebuild the generator, the corpus packages and the harness from /repo's working tree on every run (scripts/check.sh). Known genuine defects are listed in known_findings.txt.",
}
json.dump(m, open(os.path.join(V, "MANIFEST.json"), "w"), indent=1)
print("claimed:", len(checks), "not_applicable:", len(na))
