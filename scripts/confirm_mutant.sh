#!/bin/bash
# usage: confirm_mutant.sh <id> [srcdir]   -- independently confirms a seeded change from /tmp/mut/<id> (or srcdir):
#  (1) patch applies to /repo HEAD and the pinned suite still passes, (2) the demonstration fails with the
#  patch, (3) passes without it. Works in a scratch worktree under /tmp that is removed afterwards.
ID=$1; SRC=${2:-/tmp/mut/$ID}
. "$(dirname "$0")/lib.sh"
WT=/tmp/confirm-$ID-$$
git -C /repo worktree add -q --detach "$WT" HEAD || exit 2
cleanup() { git -C /repo worktree remove --force "$WT" >/dev/null 2>&1; rm -rf "$WT"; }
trap cleanup EXIT
DEMO=$(python3 -c "import json,sys;print(json.load(open('$SRC/meta.json'))['demo_cmd'])" | sed -E "s#/tmp/wt[0-9]?/[A-Za-z0-9_-]*#$WT#g")
cp -r "$SRC/demo/." "$WT/" 2>/dev/null; rm -f "$WT/RUN.md"
echo "== demo without patch (must pass)"
( eval "$DEMO" ) > "$WT.nopatch.log" 2>&1; RC0=$?
tail -3 "$WT.nopatch.log" | cut -c1-200
( cd "$WT" && git apply "$SRC/patch.diff" ) || { echo "PATCH DOES NOT APPLY"; exit 1; }
echo "== demo with patch (must fail)"
( eval "$DEMO" ) > "$WT.patch.log" 2>&1; RC1=$?
grep -m3 -E "^\s+.*_test.go|FAIL|panic" "$WT.patch.log" | cut -c1-250
echo "== suite with patch (demo files removed)"
( cd "$WT" && git clean -fdq ) 
VERIF_REPO="$WT" "$VERIF/scripts/baseline_off.sh" | tail -3; RC2=$?
rm -f "$WT.nopatch.log" "$WT.patch.log"
echo "RESULT id=$ID demo_without_patch_rc=$RC0 demo_with_patch_rc=$RC1 suite_rc=$RC2"
[ $RC0 -eq 0 ] && [ $RC1 -ne 0 ] && [ $RC2 -eq 0 ] && echo "CONFIRMED $ID" || echo "NOT-CONFIRMED $ID"
