#!/bin/bash
# usage: run_seeded.sh <seeded-id> <check-id> [tier]  -- runs a check against a scratch copy of /repo with the
# seeded change applied (the copy lives under /var/tmp and is removed afterwards; /repo is untouched).
SID=$1; CID=$2; TIER=${3:-quick}
V=$(cd "$(dirname "$0")/.." && pwd)
S=/var/tmp/seeded-$SID-$$
rsync -a --exclude .git /repo/ "$S/" || exit 2
trap 'rm -rf "$S"' EXIT
( cd "$S" && patch -p1 -s < "$V/seeded/$SID/patch.diff" ) || { echo "ERROR patch does not apply"; exit 2; }
VERIF_REPO="$S" VERIF_OUT="$S/.verif-out" "$V/scripts/check.sh" "$CID" "$TIER" 2>&1 | grep -E "^(VIOLATION|SUMMARY|ERROR|KNOWN)" | cut -c1-400 | head -${LINES_MAX:-8}
