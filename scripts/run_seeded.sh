#!/bin/bash
# usage: run_seeded.sh <seeded-id> <check-id> [tier]  -- runs a check against a scratch copy of /repo with the
# seeded change applied (the copy lives under /var/tmp and is removed afterwards; /repo is untouched).
# <seeded-id> is a directory name under seeded/ or, if it contains a slash, a directory holding patch.diff.
SID=$1; CID=$2; TIER=${3:-quick}
V=$(cd "$(dirname "$0")/.." && pwd)
case "$SID" in */*) PD="$SID"; SID=$(basename "$SID");; *) PD="$V/seeded/$SID";; esac
S=/var/tmp/seeded-$SID-$$
rsync -a --exclude .git /repo/ "$S/" || exit 2
trap 'rm -rf "$S"' EXIT
( cd "$S" && patch -p1 -s < "$PD/patch.diff" ) || { echo "ERROR patch does not apply"; exit 2; }
CMD=$(python3 -c "import json,sys;m=json.load(open('$V/MANIFEST.json'));c=[c for c in m['checks'] if c['property_id']=='$CID'][0];print(c['quick_cmd'] if '$TIER'=='quick' else c['thorough_cmd'])")
(cd "$V" && VERIF_REPO="$S" VERIF_OUT="$S/.verif-out" $CMD) 2>&1 | grep -E "^(VIOLATION|SUMMARY|ERROR|KNOWN)" | cut -c1-400 | head -${LINES_MAX:-8}
