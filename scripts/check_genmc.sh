#!/bin/bash
# usage: scripts/check_genmc.sh <C26|C27> <quick|thorough>
#        scripts/check_genmc.sh replay <replay file of C26 or C27>
# Pipeline of the genmc engine (schema family x generator flags): generate -> go build / go vet -> one reflection
# binary. Same contract as check.sh: exit 0 held; 1 VIOLATION printed; 2 infrastructure error.
ID=$1; TIER=${2:-${VERIF_TIER:-quick}}
. "$(dirname "$0")/lib.sh"
REPLAY=""
if [ "$ID" = replay ]; then
  REPLAY=$2; [ -f "$REPLAY" ] || die "usage: check_genmc.sh replay <file>"
  ID=$(python3 -c 'import json,sys; print(json.load(open(sys.argv[1]))["property"])' "$REPLAY") || die "cannot read $REPLAY"
  TIER=quick
fi
case "$ID" in C26|C27) ;; *) die "usage: check_genmc.sh <C26|C27> <quick|thorough>";; esac
case "$TIER" in quick|thorough) ;; *) die "tier must be quick or thorough";; esac
mkwork "genmc-$ID"
SCR=/var/tmp/vf-genmc-$$
trap 'rm -rf "$WORK" "$SCR"' EXIT
[ -f "$REPO/go.mod" ] || die "no Go module at $REPO"
rsync -a --exclude .git --exclude zzverif "$REPO/" "$SCR/" || die "cannot copy $REPO to $SCR"
mkdir -p "$SCR/zzverif" && rsync -a "$VERIF/harness/core" "$VERIF/harness/genmc" "$SCR/zzverif/" || die "cannot copy the harness into $SCR"
T0=$(date +%s)
( cd "$SCR" && $GO build -trimpath -o "$WORK/generator.bin" ./generator && $GO build -trimpath -o "$WORK/genmc" ./zzverif/genmc/cmd/genmc ) >"$WORK/tools.log" 2>&1 \
  || { cat "$WORK/tools.log" >&2; die "cannot build the generator / genmc driver from $REPO"; }
# The thousands of single-use generated packages are compiled with a private build cache that is removed with
# the work directory (the shared cache would grow by gigabytes per run). A cold cache would cost more than a
# minute (standard library, ygot and its dependencies), so the private cache starts as a hard-link copy of a
# seed that holds exactly those dependencies; the seed is built once and kept under $VERIF/.work.
GMCCACHE="$WORK/gocache"
SEED="$VERIF/.work/genmc-gocache-seed"
if [ ! -d "$SEED" ]; then
  ( cd "$SCR" && GOCACHE="$SEED.$$" $GO build -trimpath ./zzverif/genmc/... ./zzverif/core ./ygot ./ytypes \
      && GOCACHE="$SEED.$$" $GO vet -trimpath ./zzverif/genmc/chk ./zzverif/genmc/reg ) >"$WORK/seed.log" 2>&1 \
    || { cat "$WORK/seed.log" >&2; rm -rf "$SEED.$$"; die "cannot build the dependencies into the cache seed"; }
  mv -T "$SEED.$$" "$SEED" 2>/dev/null || rm -rf "$SEED.$$"   # another run may have been faster
fi
cp -al "$SEED" "$GMCCACHE" || die "cannot copy the build cache seed"
# time budget of the compile phases (the run is labelled non-exhaustive when it is hit)
if [ "$TIER" = thorough ]; then BUDGET=${VERIF_GENMC_BUDGET:-2400}; else BUDGET=${VERIF_GENMC_BUDGET:-900}; fi
DEADLINE=$((T0 + BUDGET))
VET=true; [ "$ID" = C27 ] && VET=false     # go vet is a clause of C26 only
common=(-work "$WORK" -scratch "$SCR" -tier "$TIER" -verif "$VERIF")
# development aid: VERIF_GENMC_FILTER=<regexp on schema ids> restricts the family (run is labelled non-exhaustive)
[ -n "$VERIF_GENMC_FILTER" ] && common+=(-filter "$VERIF_GENMC_FILTER")
[ -n "$VERIF_GENMC_SHARDSIZE" ] && common+=(-shardsize "$VERIF_GENMC_SHARDSIZE")   # packages per reflection binary (default 3000)
if [ -n "$REPLAY" ]; then
  "$WORK/genmc" gen "${common[@]}" -stage a -only "$REPLAY" || exit 2
  GOCACHE="$GMCCACHE" "$WORK/genmc" build "${common[@]}" -stage a -vet=$VET || exit 2
else
  "$WORK/genmc" gen "${common[@]}" -stage a -genbin "$WORK/generator.bin" || exit 2
  GOCACHE="$GMCCACHE" "$WORK/genmc" build "${common[@]}" -stage a -vet=$VET -deadline $DEADLINE || exit 2
  if [ "$TIER" = thorough ]; then
    "$WORK/genmc" gen "${common[@]}" -stage b || exit 2
    GOCACHE="$GMCCACHE" "$WORK/genmc" build "${common[@]}" -stage b -vet=$VET -deadline $DEADLINE || exit 2
  fi
fi
# the reflection binaries: one per shard of the compiled packages (a single one unless there are thousands)
NSH=$("$WORK/genmc" imports "${common[@]}" -shardidx -1) || exit 2
[ -n "$VERIF_KEEP_MANIFEST" ] && cp "$WORK/manifest.json" "$VERIF_KEEP_MANIFEST"
mkdir -p "$VERIF/evidence" "$VERIF/replays/$ID"
OUTARG=(); [ -n "$VERIF_OUT" ] && { mkdir -p "$VERIF_OUT"; OUTARG=(-out "$VERIF_OUT"); }
[ -n "$REPLAY" ] && { OUTARG=(-out "$WORK/replay-out"); mkdir -p "$WORK/replay-out"; }
PARTS=()
for ((i = 0; i < NSH; i++)); do
  "$WORK/genmc" imports "${common[@]}" -shardidx $i || exit 2
  ( cd "$SCR" && GOCACHE="$GMCCACHE" $GO build -trimpath -ldflags="-s -w" -o "$WORK/gmcrun" ./zzverif/genmc/cmd/gmcrun ) >"$WORK/link.log" 2>&1 \
    || { tail -50 "$WORK/link.log" >&2; die "cannot link the reflection binary (shard $i of $NSH)"; }
  if ! "$WORK/gmcrun" -prop "$ID" -tier "$TIER" -manifest "$WORK/manifest.json" -shard $i -partial "$WORK/partial-$i.json" 2>"$WORK/gmcrun-$i.err"; then
    tail -5 "$WORK/gmcrun-$i.err" >&2
    if grep -q "^panic: schema error\|schema error:" "$WORK/gmcrun-$i.err"; then
      # the init() of a generated package could not decode its own embedded schema (every generated package
      # unzips its schema when it is loaded): the generated code does not match the schema it embeds
      OD="${VERIF_OUT:-$VERIF}"; mkdir -p "$OD/replays/$ID" "$OD/evidence"
      RP="$OD/replays/$ID/init-schema-error.json"
      NPK=$(ls -d "$SCR"/zzverif/gmc/*/ 2>/dev/null | wc -l)
      python3 - "$WORK/gmcrun-$i.err" "$RP" "$OD/evidence/$ID.json" "$ID" "$TIER" "$(( $(date +%s) - T0 ))" "$NPK" <<'PY'
import json, sys
err, rp, ev, pid, tier, wall, npk = sys.argv[1:8]
txt = open(err, errors="replace").read()[-4000:]
json.dump({"property": pid, "signature": "generated-package-init-fails:embedded-schema-undecodable", "count": 1,
           "detail": "a generated package panicked in init() while unzipping its embedded schema; the reflection binary links every generated package of the run", "stderr_tail": txt,
           "case": {"note": "re-run the check; the failing package is named in the goroutine trace of stderr_tail"}}, open(rp, "w"), indent=1)
json.dump({"property_id": pid, "level": "model_checking", "tier": tier, "seed": 0, "violations": 1, "wall_s": float(wall),
           "assumptions": ["run aborted: a generated package cannot be loaded"],
           "coverage": {"exhaustive": False, "evaluations": max(int(npk), 1), "distinct_nontrivial": max(int(npk), 1),
                        "rule": "generated packages that were compiled and linked into the reflection binary before the run aborted (counted from the scratch tree)",
                        "samples": [{"aborted": "init() of a generated package failed to decode its embedded schema", "stderr_tail": txt[-600:]}],
                        "note": "the reflection stage did not run; see the replay file"}}, open(ev, "w"), indent=1)
PY
      echo "VIOLATION property=$ID replay=$RP sig=generated-package-init-fails:embedded-schema-undecodable cases=1 detail=$(grep -m1 'schema error' "$WORK/gmcrun-$i.err" | cut -c1-200)"
      exit 1
    fi
    die "reflection binary failed (shard $i of $NSH)"
  fi
  PARTS+=("$WORK/partial-$i.json")
done
echo "genmc: pipeline before the report took $(( $(date +%s) - T0 ))s"
if [ -n "$REPLAY" ]; then
  # the replayed case is judged like any other; the printed replay path is the file that was replayed
  "$WORK/gmcrun" -prop "$ID" -tier "$TIER" -seed "${VERIF_SEED:-0}" -verif "$VERIF" -manifest "$WORK/manifest.json" -t0 $T0 "${OUTARG[@]}" -report "${PARTS[@]}" \
    | sed "s|replay=[^ ]*|replay=$REPLAY|"
  rc=${PIPESTATUS[0]}
else
  "$WORK/gmcrun" -prop "$ID" -tier "$TIER" -seed "${VERIF_SEED:-0}" -verif "$VERIF" -manifest "$WORK/manifest.json" -t0 $T0 "${OUTARG[@]}" -report "${PARTS[@]}"
  rc=$?
fi
exit $rc
