#!/bin/bash
# Runs the repository's pinned test suite with the verif guard OFF (no -tags verif, no overlay)
# and compares the result with /root/.vp/BASELINE.json (3015 stable tests).
. "$(dirname "$0")/lib.sh"
OUT=$(mktemp /var/tmp/verif-baseline.XXXXXX)
trap 'rm -f "$OUT"' EXIT
# go1.26 tolerates the emptied exampleoc/*.go files (they only fail their own packages), which is
# how the baseline was recorded; the default go aborts on ./... because of them.
(cd "$REPO" && GOTOOLCHAIN=local go1.26 test -json -vet=off -count=1 -timeout 25m ./... ) > "$OUT" 2>/dev/null
python3 - "$OUT" <<'EOP'
import json, sys
base = json.load(open('/root/.vp/BASELINE.json'))
want = set(base['stable_pass'])
res = {}
for line in open(sys.argv[1], errors='replace'):
    line = line.strip()
    if not line.startswith('{'): continue
    try: e = json.loads(line)
    except Exception: continue
    if e.get('Test') and e.get('Action') in ('pass', 'fail', 'skip'):
        res[e['Package'] + '::' + e['Test']] = e['Action']
passed = {k for k, v in res.items() if v == 'pass'}
missing = sorted(want - passed)
print(f"baseline: {len(want)} expected, {len(want & passed)} passed, {len(missing)} missing/failed, {len(passed - want)} extra passes")
for m in missing[:40]: print("  NOT PASSING:", m, res.get(m, 'absent'))
sys.exit(0 if not missing else 1)
EOP
