#!/bin/bash
# dev helper: build corpus + vchk once into .work/dev (kept), for interactive runs.
. "$(dirname "$0")/lib.sh"
WORK=$VERIF/.work/dev; mkdir -p $WORK; rm -rf $WORK/gen
gen_corpus
build_vchk
echo built $WORK/vchk
