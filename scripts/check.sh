#!/bin/bash
# usage: scripts/check.sh <property-id> <quick|thorough> [extra vchk args]
# exit 0: property held on everything explored; 1: VIOLATION printed; 2: infrastructure error.
ID=$1; TIER=${2:-${VERIF_TIER:-quick}}; shift 2 || true
. "$(dirname "$0")/lib.sh"
[ -n "$ID" ] || die "usage: check.sh <id> <tier>"
mkwork "$ID"
gen_corpus
if [ "$ID" = C21 ]; then
  # C21: ytypes/string_type.go is compiled from a copy DERIVED NOW from the current file in which only
  # the import "sync" is rewritten to the scheduler shim, so an edit to the real file is never masked.
  sed 's#^\t"sync"$#\tsync "github.com/openconfig/ygot/zzverif/sched/shim"#' "$REPO/ytypes/string_type.go" > "$WORK/string_type.go"
  grep -q 'zzverif/sched/shim' "$WORK/string_type.go" || die "C21: could not rewrite the sync import of ytypes/string_type.go"
  # complementary free-running race-detector pass (real sync, real goroutines), built without the shim
  make_overlay
  if (cd "$REPO" && $GO build -race -tags verif -overlay "$WORK/overlay.json" -o "$WORK/vchk-race" ./zzverif/cmd/vchk) >"$WORK/race.build.log" 2>&1; then
    ROUNDS=3; [ "$TIER" = thorough ] && ROUNDS=20
    if GORACE="halt_on_error=1 exitcode=66" "$WORK/vchk-race" -race-pass $ROUNDS >"$WORK/race.log" 2>&1; then
      export VERIF_C21_RACE_RESULT="free-running -race pass: all pairs and triples of the 10 operations x $ROUNDS rounds x GOMAXPROCS {2,4,16}: no race reported (sampling, complementary evidence)"
    else
      RACE_FAILED=1
    fi
  else
    export VERIF_C21_RACE_RESULT="race pass not run: -race build failed ($(tail -1 "$WORK/race.build.log"))"
  fi
  build_vchk "$REPO/ytypes/string_type.go=$WORK/string_type.go"
else
  build_vchk
fi
mkdir -p "$VERIF/evidence" "$VERIF/replays/$ID"
OUTARG=(); [ -n "$VERIF_OUT" ] && { mkdir -p "$VERIF_OUT"; OUTARG=(-out "$VERIF_OUT"); }
# glog output of the library under test (e.g. leafref validation with Log:true) goes to the work directory, which is removed on exit
"$WORK/vchk" -log_dir "$WORK" -prop "$ID" -tier "$TIER" -seed "${VERIF_SEED:-0}" -verif "$VERIF" -repo "$REPO" "${OUTARG[@]}" "$@"
rc=$?
if [ -n "$RACE_FAILED" ]; then
  mkdir -p "${VERIF_OUT:-$VERIF}/replays/C21"
  cp "$WORK/race.log" "${VERIF_OUT:-$VERIF}/replays/C21/race-report.txt"
  echo "VIOLATION property=C21 replay=${VERIF_OUT:-$VERIF}/replays/C21/race-report.txt sig=race-detector detail=$(grep -m1 -A3 'DATA RACE\|fatal error' "$WORK/race.log" | tr '\n' ' ' | cut -c1-300)"
  rc=1
fi
exit $rc
