#!/bin/bash
# usage: scripts/check.sh <property-id> <quick|thorough> [extra vchk args]
# exit 0: property held on everything explored; 1: VIOLATION printed; 2: infrastructure error.
ID=$1; TIER=${2:-${VERIF_TIER:-quick}}; shift 2 || true
. "$(dirname "$0")/lib.sh"
[ -n "$ID" ] || die "usage: check.sh <id> <tier>"
mkwork "$ID"
gen_corpus
build_vchk
mkdir -p "$VERIF/evidence" "$VERIF/replays/$ID"
OUTARG=(); [ -n "$VERIF_OUT" ] && { mkdir -p "$VERIF_OUT"; OUTARG=(-out "$VERIF_OUT"); }
"$WORK/vchk" -prop "$ID" -tier "$TIER" -seed "${VERIF_SEED:-0}" -verif "$VERIF" -repo "$REPO" "${OUTARG[@]}" "$@"
rc=$?
exit $rc
