#!/usr/bin/env python3
"""Prints the markdown tables of DESIGN.md section 11 from known_findings.txt (fixed + known entries)."""
import re,os,subprocess
V=os.path.dirname(os.path.dirname(os.path.abspath(__file__)))
fixed,known=[],[]
for l in open(os.path.join(V,'known_findings.txt')):
    l=l.rstrip('\n')
    if l.startswith('fixed:'):
        m=re.match(r'fixed: property=(\S+) (\S+) (.*)',l)
        if m: fixed.append(m.groups())
    elif l.startswith('known:'):
        m=re.match(r'known: property=(\S+) (sigre|sig)=(.*?) :: (.*)',l)
        if m: known.append((m.group(1),m.group(4)))
print('### 11.1 Repaired in /repo (`fix:` commits, one defect each; pinned suite 3015/3015 after every commit)\n')
print('| property | commit | what failed |\n|---|---|---|')
for p,c,d in fixed: print(f'| {p} | `{c}` | {d} |')
print('\n### 11.2 Recorded as known findings (not repaired)\n')
print('| property | what fails (one row per entry of known_findings.txt) |\n|---|---|')
for p,d in sorted(known): print(f'| {p} | {d} |')
